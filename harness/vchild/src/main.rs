//! vchild — helper child process started by watchexec as "the command" in the real-process engines.
//!
//! usage: vchild LOG TAG [options] [-- anything...]
//!   --exit-after MS        exit by itself after MS milliseconds (default: run until told otherwise)
//!   --code N               exit code for own / signalled exits (default 0)
//!   --on-signal SIG:MS     exit MS ms after receiving SIG (number, or `any`); may be repeated
//!   --ignore               log signals but never exit because of them
//!   --fork N:OPTS          fork N grandchildren, each a vchild with OPTS (comma separated, e.g. `--ignore` or
//!                          `--on-signal,15:10`), tagged TAG.g<i>
//!   --dump                 log argv (hex), cwd and WATCHEXEC_* / VERIF_* environment
//!   --read-stdin           log stdin contents (hex, first 64 KiB)
//!   --no-overlap-probe     do not look for a live predecessor with the same tag
//! Every log line: `<CLOCK_MONOTONIC ns> <pid> <ppid> <pgid> <sid> <tag> <event ...>` (one write, O_APPEND).
//! The `start` line is written only after every catchable signal is blocked, so a signal sent after it is
//! never lost and never kills the process by default action.

use std::{
	ffi::CString,
	io::Read,
	os::unix::ffi::OsStrExt,
};

fn mono_ns() -> u64 {
	let mut ts = libc::timespec { tv_sec: 0, tv_nsec: 0 };
	unsafe { libc::clock_gettime(libc::CLOCK_MONOTONIC, &mut ts) };
	ts.tv_sec as u64 * 1_000_000_000 + ts.tv_nsec as u64
}

struct Log {
	fd: i32,
	tag: String,
}

impl Log {
	fn line(&self, ev: &str) {
		let (pid, ppid, pgid, sid) = unsafe { (libc::getpid(), libc::getppid(), libc::getpgrp(), libc::getsid(0)) };
		let s = format!("{} {pid} {ppid} {pgid} {sid} {} {ev}\n", mono_ns(), self.tag);
		unsafe { libc::write(self.fd, s.as_ptr().cast(), s.len()) };
	}
}

fn hex(b: &[u8]) -> String {
	b.iter().map(|x| format!("{x:02x}")).collect()
}

#[derive(Clone, Default)]
struct Mode {
	exit_after: Option<u64>,
	code: i32,
	on_signal: Vec<(i32, u64)>, // sig (0 = any), delay ms
	ignore: bool,
	fork: Vec<(usize, Vec<String>)>,
	dump: bool,
	read_stdin: bool,
	overlap_probe: bool,
}

fn parse(opts: &[String]) -> Mode {
	let mut m = Mode { overlap_probe: true, ..Default::default() };
	let mut i = 0;
	while i < opts.len() {
		let a = opts[i].as_str();
		let next = opts.get(i + 1).cloned().unwrap_or_default();
		match a {
			"--exit-after" => {
				m.exit_after = next.parse().ok();
				i += 1;
			}
			"--code" => {
				m.code = next.parse().unwrap_or(0);
				i += 1;
			}
			"--on-signal" => {
				if let Some((s, d)) = next.split_once(':') {
					let sig = if s == "any" { 0 } else { s.parse().unwrap_or(15) };
					m.on_signal.push((sig, d.parse().unwrap_or(0)));
				}
				i += 1;
			}
			"--ignore" => m.ignore = true,
			"--fork" => {
				if let Some((n, o)) = next.split_once(':') {
					m.fork.push((n.parse().unwrap_or(1), o.split(',').filter(|s| !s.is_empty()).map(str::to_string).collect()));
				}
				i += 1;
			}
			"--dump" => m.dump = true,
			"--read-stdin" => m.read_stdin = true,
			"--no-overlap-probe" => m.overlap_probe = false,
			"--" => break,
			_ => {}
		}
		i += 1;
	}
	m
}

fn proc_state(pid: i32) -> Option<char> {
	let s = std::fs::read_to_string(format!("/proc/{pid}/stat")).ok()?;
	let close = s.rfind(')')?;
	s[close + 1..].trim_start().chars().next()
}

fn run(log: &Log, logpath: &str, mode: &Mode, argv: &[Vec<u8>]) -> ! {
	unsafe {
		let mut set: libc::sigset_t = std::mem::zeroed();
		libc::sigfillset(&mut set);
		libc::sigprocmask(libc::SIG_BLOCK, &set, std::ptr::null_mut());
	}
	if mode.overlap_probe {
		// a predecessor with the same tag that is still alive (not a zombie) is an overlap witness
		if let Ok(content) = std::fs::read_to_string(logpath) {
			let me = unsafe { libc::getpid() };
			let mut last: Option<i32> = None;
			for l in content.lines() {
				let f: Vec<&str> = l.split(' ').collect();
				if f.len() >= 7 && f[5] == log.tag && f[6] == "start" {
					if let Ok(p) = f[1].parse::<i32>() {
						if p != me {
							last = Some(p);
						}
					}
				}
			}
			if let Some(p) = last {
				if let Some(st) = proc_state(p) {
					if st != 'Z' && st != 'X' {
						// make sure it is still the same program (pid reuse): cmdline mentions the tag
						let cmd = std::fs::read(format!("/proc/{p}/cmdline")).unwrap_or_default();
						if String::from_utf8_lossy(&cmd).contains(&log.tag) {
							log.line(&format!("overlap {p} {st}"));
						}
					}
				}
			}
		}
	}
	if mode.dump {
		log.line(&format!("argv {}", argv.iter().map(|a| hex(a)).collect::<Vec<_>>().join(",")));
		log.line(&format!("cwd {}", hex(std::env::current_dir().map(|p| p.as_os_str().as_bytes().to_vec()).unwrap_or_default().as_slice())));
		let mut envs: Vec<String> = std::env::vars_os()
			.filter(|(k, _)| {
				let k = k.to_string_lossy();
				k.starts_with("WATCHEXEC_") || k.starts_with("VERIF_")
			})
			.map(|(k, v)| format!("{}={}", hex(k.as_bytes()), hex(v.as_bytes())))
			.collect();
		envs.sort();
		log.line(&format!("env {}", envs.join(",")));
	}
	if mode.read_stdin {
		let mut buf = Vec::new();
		std::io::stdin().take(65536).read_to_end(&mut buf).ok();
		log.line(&format!("stdin {}", hex(&buf)));
	}
	// grandchildren
	for (gi, (n, opts)) in mode.fork.iter().enumerate() {
		for j in 0..*n {
			let pid = unsafe { libc::fork() };
			if pid == 0 {
				let sub = Log { fd: log.fd, tag: format!("{}.g{}", log.tag, gi * 10 + j) };
				let mut m = parse(opts);
				m.overlap_probe = false;
				run(&sub, logpath, &m, argv);
			}
		}
	}
	log.line("start");

	let t0 = mono_ns();
	let mut deadline: Option<(u64, i32)> = mode.exit_after.map(|ms| (t0 + ms * 1_000_000, mode.code));
	let mut set: libc::sigset_t = unsafe { std::mem::zeroed() };
	unsafe {
		libc::sigfillset(&mut set);
		// SIGCHLD would wake us for every grandchild: reap them quietly
		libc::sigdelset(&mut set, libc::SIGCHLD);
	}
	loop {
		let now = mono_ns();
		if let Some((d, code)) = deadline {
			if now >= d {
				log.line(&format!("exit {code}"));
				unsafe { libc::_exit(code) };
			}
		}
		let wait_ns = deadline.map_or(200_000_000, |(d, _)| (d - now).min(200_000_000));
		let ts = libc::timespec { tv_sec: (wait_ns / 1_000_000_000) as i64, tv_nsec: (wait_ns % 1_000_000_000) as i64 };
		let mut info: libc::siginfo_t = unsafe { std::mem::zeroed() };
		let sig = unsafe { libc::sigtimedwait(&set, &mut info, &ts) };
		// reap any finished grandchildren
		loop {
			let mut st = 0;
			let r = unsafe { libc::waitpid(-1, &mut st, libc::WNOHANG) };
			if r <= 0 {
				break;
			}
		}
		if sig > 0 {
			let from = unsafe { info.si_pid() };
			log.line(&format!("signal {sig} from {from}"));
			if !mode.ignore {
				let rule = mode.on_signal.iter().find(|(s, _)| *s == sig || *s == 0);
				let delay = match rule {
					Some((_, d)) => Some(*d),
					None if mode.on_signal.is_empty() => Some(0), // default: exit at once on any signal
					None => None,
				};
				if let Some(dms) = delay {
					let at = mono_ns() + dms * 1_000_000;
					if deadline.map_or(true, |(d, _)| at < d) {
						deadline = Some((at, mode.code));
					}
				}
			}
		}
	}
}

fn main() {
	let args: Vec<std::ffi::OsString> = std::env::args_os().collect();
	let argv: Vec<Vec<u8>> = args.iter().map(|a| a.as_bytes().to_vec()).collect();
	// LOG and TAG may come from the environment when the argument vector itself is under test
	let (logpath, tag, opts): (String, String, Vec<String>) = match (std::env::var("VCHILD_LOG"), std::env::var("VCHILD_TAG")) {
		(Ok(l), Ok(t)) => (l, t, std::env::var("VCHILD_OPTS").unwrap_or_default().split(' ').filter(|s| !s.is_empty()).map(str::to_string).collect()),
		_ => {
			if args.len() < 3 {
				eprintln!("usage: vchild LOG TAG [options]");
				std::process::exit(2);
			}
			(
				args[1].to_string_lossy().to_string(),
				args[2].to_string_lossy().to_string(),
				args[3..].iter().map(|a| a.to_string_lossy().to_string()).collect(),
			)
		}
	};
	let c = CString::new(logpath.clone()).unwrap();
	let fd = unsafe { libc::open(c.as_ptr(), libc::O_WRONLY | libc::O_APPEND | libc::O_CREAT | libc::O_CLOEXEC, 0o644) };
	if fd < 0 {
		eprintln!("vchild: cannot open log {logpath}");
		std::process::exit(2);
	}
	let log = Log { fd, tag };
	let mode = parse(&opts);
	run(&log, &logpath, &mode, &argv);
}
