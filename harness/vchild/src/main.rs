fn main() {}
