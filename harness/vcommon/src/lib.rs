//! Shared pieces of the verification harness: seeded PRNG, report (shard result) writer,
//! hashing of abstract traces, monotonic clock, heartbeat.

use std::{
	collections::{BTreeMap, BTreeSet},
	path::PathBuf,
	sync::{
		atomic::{AtomicBool, AtomicU64, Ordering},
		Arc,
	},
	time::{Duration, Instant},
};

pub use serde_json::{json, Value};

// ---------------------------------------------------------------------------------------------
// PRNG (splitmix64 seeded xoshiro256**): no external crates, stable across platforms.

#[derive(Clone, Debug)]
pub struct Rng {
	s: [u64; 4],
}

fn splitmix(x: &mut u64) -> u64 {
	*x = x.wrapping_add(0x9E37_79B9_7F4A_7C15);
	let mut z = *x;
	z = (z ^ (z >> 30)).wrapping_mul(0xBF58_476D_1CE4_E5B9);
	z = (z ^ (z >> 27)).wrapping_mul(0x94D0_49BB_1331_11EB);
	z ^ (z >> 31)
}

impl Rng {
	pub fn new(seed: u64) -> Self {
		let mut x = seed ^ 0xA076_1D64_78BD_642F;
		Self {
			s: [
				splitmix(&mut x),
				splitmix(&mut x),
				splitmix(&mut x),
				splitmix(&mut x),
			],
		}
	}

	/// Derive an independent stream (e.g. per shard / per scenario).
	pub fn fork(&self, salt: u64) -> Self {
		let mut x = self.s[0] ^ salt.wrapping_mul(0xD6E8_FEB8_6659_FD93) ^ self.s[2].rotate_left(17);
		Self {
			s: [
				splitmix(&mut x),
				splitmix(&mut x),
				splitmix(&mut x),
				splitmix(&mut x),
			],
		}
	}

	pub fn next_u64(&mut self) -> u64 {
		let result = self.s[1].wrapping_mul(5).rotate_left(7).wrapping_mul(9);
		let t = self.s[1] << 17;
		self.s[2] ^= self.s[0];
		self.s[3] ^= self.s[1];
		self.s[1] ^= self.s[2];
		self.s[0] ^= self.s[3];
		self.s[2] ^= t;
		self.s[3] = self.s[3].rotate_left(45);
		result
	}

	/// Uniform in 0..n (n > 0).
	pub fn below(&mut self, n: u64) -> u64 {
		debug_assert!(n > 0);
		self.next_u64() % n
	}

	pub fn range(&mut self, lo: i64, hi_incl: i64) -> i64 {
		lo + self.below((hi_incl - lo + 1) as u64) as i64
	}

	pub fn usize(&mut self, n: usize) -> usize {
		self.below(n as u64) as usize
	}

	pub fn chance(&mut self, num: u64, den: u64) -> bool {
		self.below(den) < num
	}

	pub fn pick<'a, T>(&mut self, items: &'a [T]) -> &'a T {
		&items[self.usize(items.len())]
	}

	pub fn shuffle<T>(&mut self, items: &mut [T]) {
		for i in (1..items.len()).rev() {
			let j = self.usize(i + 1);
			items.swap(i, j);
		}
	}
}

// ---------------------------------------------------------------------------------------------
// FNV-1a 64 hashing of abstract traces

#[derive(Clone, Copy)]
pub struct Fnv(pub u64);
impl Default for Fnv {
	fn default() -> Self {
		Self(0xcbf2_9ce4_8422_2325)
	}
}
impl Fnv {
	pub fn bytes(&mut self, b: &[u8]) -> &mut Self {
		for x in b {
			self.0 ^= u64::from(*x);
			self.0 = self.0.wrapping_mul(0x0000_0100_0000_01B3);
		}
		self.0 ^= 0xff;
		self.0 = self.0.wrapping_mul(0x0000_0100_0000_01B3);
		self
	}
	pub fn str(&mut self, s: &str) -> &mut Self {
		self.bytes(s.as_bytes())
	}
	pub fn u64(&mut self, v: u64) -> &mut Self {
		self.bytes(&v.to_le_bytes())
	}
	pub fn finish(&self) -> u64 {
		self.0
	}
}
pub fn hash_str(s: &str) -> u64 {
	Fnv::default().str(s).finish()
}

// ---------------------------------------------------------------------------------------------
// Command line of an engine shard: `<engine> <PROP> --tier T --seed N --shard i/n --out FILE [--replay FILE] [--budget SECS]`

#[derive(Clone, Debug)]
pub struct ShardArgs {
	pub prop: String,
	pub tier: String,
	pub seed: u64,
	pub shard: usize,
	pub nshards: usize,
	pub out: PathBuf,
	pub replay: Option<PathBuf>,
	pub budget: Duration,
	pub scratch: PathBuf,
	pub extra: BTreeMap<String, String>,
}

impl ShardArgs {
	pub fn parse() -> Self {
		let mut it = std::env::args().skip(1);
		let prop = it.next().expect("usage: <engine> <PROP> [--tier ..]");
		let mut a = Self {
			prop,
			tier: "quick".into(),
			seed: 0,
			shard: 0,
			nshards: 1,
			out: PathBuf::from("/dev/stdout"),
			replay: None,
			budget: Duration::from_secs(30),
			scratch: std::env::temp_dir(),
			extra: BTreeMap::new(),
		};
		while let Some(k) = it.next() {
			let v = it.next().unwrap_or_default();
			match k.as_str() {
				"--tier" => a.tier = v,
				"--seed" => a.seed = v.parse().expect("seed"),
				"--shard" => {
					let (i, n) = v.split_once('/').expect("shard i/n");
					a.shard = i.parse().unwrap();
					a.nshards = n.parse().unwrap();
				}
				"--out" => a.out = PathBuf::from(v),
				"--replay" => a.replay = Some(PathBuf::from(v)),
				"--budget" => a.budget = Duration::from_secs_f64(v.parse().expect("budget")),
				"--scratch" => a.scratch = PathBuf::from(v),
				other => {
					a.extra
						.insert(other.trim_start_matches("--").to_string(), v);
				}
			}
		}
		a
	}

	pub fn thorough(&self) -> bool {
		self.tier == "thorough"
	}

	pub fn rng(&self) -> Rng {
		Rng::new(self.seed).fork(self.shard as u64 + 1)
	}

	/// Does work item `i` belong to this shard (round robin)?
	pub fn mine(&self, i: usize) -> bool {
		i % self.nshards == self.shard
	}
}

// ---------------------------------------------------------------------------------------------
// Shard report

#[derive(Debug, Default)]
pub struct Report {
	pub evaluations: u64,
	pub nontrivial: BTreeSet<u64>,
	pub violations: Vec<Value>,
	pub inconclusive: BTreeMap<String, u64>,
	pub counters: BTreeMap<String, u64>,
	pub samples: Vec<Value>,
	pub notes: BTreeSet<String>,
	pub max_samples: usize,
	pub max_violations: usize,
	pub exhaustive: Option<bool>,
}

impl Report {
	pub fn new() -> Self {
		Self {
			max_samples: 4,
			max_violations: 40,
			..Default::default()
		}
	}

	pub fn eval(&mut self) {
		self.evaluations += 1;
	}

	pub fn nontrivial(&mut self, h: u64) {
		// cap memory: beyond 400k distinct hashes keep counting conservatively (drop new ones)
		if self.nontrivial.len() < 400_000 {
			self.nontrivial.insert(h);
		}
	}

	pub fn count(&mut self, name: &str, n: u64) {
		*self.counters.entry(name.to_string()).or_default() += n;
	}

	pub fn max(&mut self, name: &str, v: u64) {
		let e = self.counters.entry(name.to_string()).or_default();
		if v > *e {
			*e = v;
		}
	}

	pub fn inconclusive(&mut self, reason: &str) {
		*self.inconclusive.entry(reason.to_string()).or_default() += 1;
	}

	pub fn note(&mut self, s: impl Into<String>) {
		if self.notes.len() < 50 {
			self.notes.insert(s.into());
		}
	}

	pub fn sample(&mut self, v: Value) {
		if self.samples.len() < self.max_samples {
			self.samples.push(v);
		}
	}

	/// Record a violation. `sig` is the exact signature used for known-finding matching,
	/// `what` a one-line human description, `witness` everything needed to replay.
	pub fn violation(&mut self, sig: &str, what: &str, witness: Value) {
		self.count("violations_total", 1);
		if self.violations.len() < self.max_violations
			&& (self
				.violations
				.iter()
				.filter(|v| v["sig"] == sig)
				.count() < 3)
		{
			self.violations
				.push(json!({"sig": sig, "what": what, "witness": witness}));
		} else {
			*self
				.counters
				.entry(format!("violations_suppressed::{sig}"))
				.or_default() += 1;
		}
	}

	pub fn to_json(&self) -> Value {
		json!({
			"evaluations": self.evaluations,
			"nontrivial": self.nontrivial.iter().map(|h| format!("{h:016x}")).collect::<Vec<_>>(),
			"violations": self.violations,
			"inconclusive": self.inconclusive,
			"counters": self.counters,
			"samples": self.samples,
			"notes": self.notes,
			"exhaustive": self.exhaustive,
		})
	}

	/// Write the report through an already opened handle (for a shard that changed its filesystem root meanwhile).
	pub fn write_to(&self, f: &mut std::fs::File) {
		use std::io::Write;
		let txt = serde_json::to_string(&self.to_json()).expect("serialise report");
		f.write_all(txt.as_bytes()).expect("write report");
		f.sync_all().ok();
	}

	pub fn write(&self, args: &ShardArgs) {
		let txt = serde_json::to_string(&self.to_json()).expect("serialise report");
		if args.out == PathBuf::from("/dev/stdout") {
			println!("{txt}");
		} else {
			let tmp = args.out.with_extension("tmp");
			std::fs::write(&tmp, txt).expect("write report");
			std::fs::rename(&tmp, &args.out).expect("rename report");
		}
	}
}

// ---------------------------------------------------------------------------------------------
// Clock and heartbeat

/// CLOCK_MONOTONIC nanoseconds (system wide; comparable across processes).
pub fn mono_ns() -> u64 {
	let mut ts = libc::timespec {
		tv_sec: 0,
		tv_nsec: 0,
	};
	unsafe { libc::clock_gettime(libc::CLOCK_MONOTONIC, &mut ts) };
	ts.tv_sec as u64 * 1_000_000_000 + ts.tv_nsec as u64
}

/// A thread that sleeps 1 ms at a time and records the largest gap it observed between wake-ups.
/// A large gap means the machine (or this process) was stalled and real-time upper bounds observed
/// during that interval are not trustworthy.
pub struct Heartbeat {
	max_gap_ns: Arc<AtomicU64>,
	stop: Arc<AtomicBool>,
	handle: Option<std::thread::JoinHandle<()>>,
}

impl Heartbeat {
	pub fn start() -> Self {
		let max_gap_ns = Arc::new(AtomicU64::new(0));
		let stop = Arc::new(AtomicBool::new(false));
		let (m, s) = (max_gap_ns.clone(), stop.clone());
		let handle = std::thread::spawn(move || {
			let mut last = Instant::now();
			while !s.load(Ordering::Relaxed) {
				std::thread::sleep(Duration::from_millis(1));
				let now = Instant::now();
				let gap = now.duration_since(last).as_nanos() as u64;
				m.fetch_max(gap, Ordering::Relaxed);
				last = now;
			}
		});
		Self {
			max_gap_ns,
			stop,
			handle: Some(handle),
		}
	}

	/// Largest gap since the last reset, and reset.
	pub fn take_max_gap(&self) -> Duration {
		Duration::from_nanos(self.max_gap_ns.swap(0, Ordering::Relaxed))
	}

	pub fn peek_max_gap(&self) -> Duration {
		Duration::from_nanos(self.max_gap_ns.load(Ordering::Relaxed))
	}
}

impl Drop for Heartbeat {
	fn drop(&mut self) {
		self.stop.store(true, Ordering::Relaxed);
		if let Some(h) = self.handle.take() {
			h.join().ok();
		}
	}
}

/// Deadline helper for shard budgets.
pub struct Budget {
	start: Instant,
	total: Duration,
}
impl Budget {
	pub fn new(total: Duration) -> Self {
		Self {
			start: Instant::now(),
			total,
		}
	}
	pub fn exhausted(&self) -> bool {
		self.start.elapsed() >= self.total
	}
	pub fn elapsed(&self) -> Duration {
		self.start.elapsed()
	}
	pub fn fraction(&self) -> f64 {
		self.start.elapsed().as_secs_f64() / self.total.as_secs_f64()
	}
}
