//! E5: input-space reference-model engine. One property per module; each `run` drives the real
//! watchexec code over generated / enumerated inputs and judges every result with an oracle that
//! is written independently from the implementation.

use vcommon::{Report, ShardArgs};

mod c03;
mod c11;
mod c12;
mod c14;
mod c16;
mod c17;
mod c19;
mod c20;

fn main() {
	let args = ShardArgs::parse();
	let mut rep = Report::new();
	let rt = tokio::runtime::Builder::new_current_thread()
		.enable_all()
		.build()
		.expect("runtime");
	match args.prop.as_str() {
		"C03" => rt.block_on(c03::run(&args, &mut rep)),
		"C11" => rt.block_on(c11::run(&args, &mut rep)),
		"C12" => rt.block_on(c12::run(&args, &mut rep)),
		"C14" => rt.block_on(c14::run(&args, &mut rep)),
		"C16" => c16::run(&args, &mut rep),
		"C17" => c17::run(&args, &mut rep),
		"C19" => c19::run(&args, &mut rep),
		"C20" => {
			rt.block_on(c20::run(&args, &mut rep));
			// the last shard finishes with the cases that need a marker in the filesystem root itself: it confines
			// itself to a scratch tree (chroot) and therefore writes its report through a handle opened beforehand
			if args.shard + 1 == args.nshards && args.out != std::path::PathBuf::from("/dev/stdout") {
				let mut out = std::fs::File::create(&args.out).expect("report file");
				rt.block_on(c20::root_phase(&args, &mut rep));
				rep.write_to(&mut out);
				return;
			}
		}
		other => {
			eprintln!("pure engine: unknown property {other}");
			std::process::exit(2);
		}
	}
	rep.write(&args);
}
