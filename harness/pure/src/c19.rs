//! C19 — signal names and exit statuses convert consistently.

use std::{os::unix::process::ExitStatusExt, process::ExitStatus, str::FromStr};

use clap::Parser;
use nix::sys::signal::Signal as NixSignal;
use vcommon::{hash_str, json, Report, ShardArgs};
use watchexec_events::ProcessEnd;
use watchexec_signals::Signal;

/// Independent table: first-class signal → POSIX number (x86-64 Linux).
const FIRST_CLASS: &[(Signal, i32, &str)] = &[
	(Signal::Hangup, 1, "HUP"),
	(Signal::Interrupt, 2, "INT"),
	(Signal::Quit, 3, "QUIT"),
	(Signal::ForceStop, 9, "KILL"),
	(Signal::User1, 10, "USR1"),
	(Signal::User2, 12, "USR2"),
	(Signal::Terminate, 15, "TERM"),
];

/// Documented Windows control names (doc comment of `from_windows_str`) → OS signal number.
const WINDOWS_NAMES: &[(&str, i32)] = &[
	("CTRL-CLOSE", 1),
	("CTRL+CLOSE", 1),
	("CLOSE", 1),
	("CTRL-BREAK", 15),
	("CTRL+BREAK", 15),
	("BREAK", 15),
	("CTRL-C", 2),
	("CTRL+C", 2),
	("C", 2),
	("STOP", 9),
	("FORCE-STOP", 9),
	("KILL", 9),
	("SIGKILL", 9),
];

/// The OS signal number a `Signal` stands for, if any.
fn os_number(sig: Signal) -> Option<i32> {
	sig.to_nix().map(|s| s as i32)
}

fn case_variants(s: &str) -> Vec<String> {
	let mut v = vec![s.to_ascii_uppercase(), s.to_ascii_lowercase()];
	// mixed: alternate, and capitalised
	let alt: String = s
		.chars()
		.enumerate()
		.map(|(i, c)| {
			if i % 2 == 0 {
				c.to_ascii_lowercase()
			} else {
				c.to_ascii_uppercase()
			}
		})
		.collect();
	v.push(alt);
	let mut cap = s.to_ascii_lowercase();
	if let Some(f) = cap.get_mut(0..1) {
		f.make_ascii_uppercase();
	}
	v.push(cap);
	v.sort();
	v.dedup();
	v
}

fn parse_num(s: &str) -> Result<Option<i32>, String> {
	match Signal::from_str(s) {
		Ok(sig) => Ok(os_number(sig)),
		Err(e) => Err(e.to_string()),
	}
}

pub fn run(args: &ShardArgs, rep: &mut Report) {
	// The whole space is tiny and enumerated completely by every shard-0 run; other shards idle.
	if args.shard != 0 {
		return;
	}
	rep.exhaustive = Some(true);

	// (1) first-class table and From<i32> / from_nix agreement -----------------------------
	for (sig, num, short) in FIRST_CLASS {
		rep.eval();
		rep.nontrivial(hash_str(&format!("fc:{short}")));
		if os_number(*sig) != Some(*num) {
			rep.violation(
				"C19/first-class-number",
				&format!("{sig:?} maps to {:?}, POSIX number is {num}", os_number(*sig)),
				json!({"signal": format!("{sig:?}"), "expected": num}),
			);
		}
		if Signal::from(*num) != *sig {
			rep.violation(
				"C19/from-i32",
				&format!("Signal::from({num}) = {:?}, expected {sig:?}", Signal::from(*num)),
				json!({"number": num}),
			);
		}
	}
	for n in 1..=64i32 {
		rep.eval();
		let via_i32 = Signal::from(n);
		if let Ok(nix) = NixSignal::try_from(n) {
			let via_nix = Signal::from_nix(nix);
			if via_i32 != via_nix {
				rep.violation(
					"C19/from-i32-vs-from-nix",
					&format!("Signal::from({n}) = {via_i32:?} but from_nix = {via_nix:?}"),
					json!({"number": n}),
				);
			}
			if os_number(via_nix) != Some(n) {
				rep.violation(
					"C19/nix-roundtrip",
					&format!("from_nix({nix:?}).to_nix() = {:?}", os_number(via_nix)),
					json!({"number": n}),
				);
			}
		}
	}

	// (2) Display -> FromStr keeps the OS signal --------------------------------------------
	let mut all: Vec<Signal> = FIRST_CLASS.iter().map(|t| t.0).collect();
	all.extend((1..=64).map(Signal::Custom));
	all.extend((1..=64).map(Signal::from));
	for sig in all {
		rep.eval();
		let shown = sig.to_string();
		let want = os_number(sig);
		if want.is_none() {
			// not an OS signal on this platform (e.g. Custom(40) with nix): outside the statement
			rep.count("display_roundtrip_not_an_os_signal", 1);
			continue;
		}
		rep.nontrivial(hash_str(&format!("disp:{shown}")));
		rep.count("display_roundtrips", 1);
		match parse_num(&shown) {
			Ok(got) if got == want => {}
			other => rep.violation(
				"C19/display-roundtrip",
				&format!("{sig:?} displays as {shown:?} which parses to {other:?}, expected {want:?}"),
				json!({"signal": format!("{sig:?}"), "display": shown}),
			),
		}
	}

	// (3) every name nix knows: three spellings x letter cases agree -------------------------
	let windows_upper: Vec<&str> = WINDOWS_NAMES.iter().map(|t| t.0).collect();
	for nix in NixSignal::iterator() {
		let long = nix.as_str().to_string(); // "SIGHUP"
		let short = long.trim_start_matches("SIG").to_string();
		let num = nix as i32;
		for (kind, spelling) in [("short", short.clone()), ("long", long.clone()), ("number", num.to_string())] {
			for variant in case_variants(&spelling) {
				rep.eval();
				rep.nontrivial(hash_str(&format!("name:{variant}")));
				rep.count("name_spellings", 1);
				let upper = variant.to_ascii_uppercase();
				let expected = if let Some((_, w)) = WINDOWS_NAMES.iter().find(|t| t.0 == upper) {
					*w // documented precedence of the Windows control names
				} else {
					num
				};
				match parse_num(&variant) {
					Ok(Some(got)) if got == expected => {}
					other => rep.violation(
						&format!("C19/name-parse/{kind}"),
						&format!("{variant:?} parses to {other:?}, expected signal {expected}"),
						json!({"input": variant, "expected": expected}),
					),
				}
				// from_unix_str alone must always give the unix meaning
				match Signal::from_unix_str(&variant).map(os_number) {
					Ok(Some(got)) if got == num => {}
					other => rep.violation(
						&format!("C19/unix-name-parse/{kind}"),
						&format!("from_unix_str({variant:?}) = {other:?}, expected {num}"),
						json!({"input": variant, "expected": num}),
					),
				}
			}
		}
		let _ = &windows_upper;
	}

	// (4) Windows control names in all cases ------------------------------------------------
	for (name, num) in WINDOWS_NAMES {
		for variant in case_variants(name) {
			rep.eval();
			rep.nontrivial(hash_str(&format!("win:{variant}")));
			match parse_num(&variant) {
				Ok(Some(got)) if got == *num => {}
				other => rep.violation(
					"C19/windows-name",
					&format!("{variant:?} parses to {other:?}, documented meaning is signal {num}"),
					json!({"input": variant, "expected": num}),
				),
			}
		}
	}
	// garbage must not parse
	for bad in ["", "SIG", "SIGSIGHUP", "HUPP", "1x", "-", "CTRL", "0x9", " 9", "9 "] {
		rep.eval();
		if let Ok(sig) = Signal::from_str(bad) {
			rep.violation(
				"C19/garbage-parses",
				&format!("{bad:?} parses to {sig:?}"),
				json!({"input": bad}),
			);
		}
	}

	// (5) --map-signal FROM:TO through the real clap parser ----------------------------------
	let names: Vec<(String, i32)> = NixSignal::iterator()
		.map(|n| (n.as_str().trim_start_matches("SIG").to_string(), n as i32))
		.filter(|(s, _)| !WINDOWS_NAMES.iter().any(|w| w.0 == s))
		.collect();
	for (i, (from, fnum)) in names.iter().enumerate() {
		for (j, (to, tnum)) in names.iter().enumerate() {
			// all pairs is 31x31; spell them differently depending on position
			let from_s = match (i + j) % 3 {
				0 => from.to_ascii_lowercase(),
				1 => format!("SIG{from}"),
				_ => fnum.to_string(),
			};
			let to_s = match (i * 7 + j) % 4 {
				0 => to.to_ascii_lowercase(),
				1 => format!("sig{}", to.to_ascii_lowercase()),
				2 => tnum.to_string(),
				_ => String::new(), // empty TO: discard
			};
			rep.eval();
			rep.count("map_signal_pairs", 1);
			rep.nontrivial(hash_str(&format!("map:{from_s}:{to_s}")));
			let argv = ["watchexec", "--map-signal", &format!("{from_s}:{to_s}"), "--", "true"];
			match watchexec_cli::args::Args::try_parse_from(argv) {
				Err(e) => rep.violation(
					"C19/map-signal-rejected",
					&format!("--map-signal {from_s}:{to_s} rejected: {}", e.kind()),
					json!({"from": from_s, "to": to_s}),
				),
				Ok(a) => {
					let m = &a.events.signal_map;
					let ok = m.len() == 1
						&& os_number(m[0].from) == Some(*fnum)
						&& if to_s.is_empty() {
							m[0].to.is_none()
						} else {
							m[0].to.and_then(os_number) == Some(*tnum)
						};
					if !ok {
						rep.violation(
							"C19/map-signal-wrong",
							&format!(
								"--map-signal {from_s}:{to_s} parsed as {:?} -> {:?}",
								m.first().map(|x| x.from),
								m.first().map(|x| x.to)
							),
							json!({"from": from_s, "to": to_s}),
						);
					}
				}
			}
		}
	}
	for bad in ["HUP", "HUP:NOPE", ":TERM", "NOPE:TERM"] {
		rep.eval();
		if watchexec_cli::args::Args::try_parse_from(["watchexec", "--map-signal", bad, "--", "true"]).is_ok() {
			rep.violation(
				"C19/map-signal-garbage-accepted",
				&format!("--map-signal {bad} accepted"),
				json!({"input": bad}),
			);
		}
	}

	// (6) exit status -> ProcessEnd ----------------------------------------------------------
	for code in 0..=255i32 {
		rep.eval();
		rep.nontrivial(hash_str(&format!("exit:{code}")));
		let es = ExitStatus::from_raw(code << 8);
		let pe = ProcessEnd::from(es);
		let ok = if code == 0 {
			pe == ProcessEnd::Success
		} else {
			matches!(pe, ProcessEnd::ExitError(c) if c.get() == i64::from(code))
		};
		if !ok {
			rep.violation(
				"C19/exit-code",
				&format!("exit code {code} converts to {pe:?}"),
				json!({"raw": code << 8}),
			);
		}
		// round trip where defined
		let back = pe.into_exitstatus();
		if back.code() != Some(code) || back.success() != (code == 0) {
			rep.violation(
				"C19/exit-code-roundtrip",
				&format!("{pe:?}.into_exitstatus() has code {:?}", back.code()),
				json!({"raw": code << 8}),
			);
		}
	}
	for sig in 1..=64i32 {
		for core in [false, true] {
			rep.eval();
			rep.nontrivial(hash_str(&format!("sig:{sig}:{core}")));
			let raw = sig | if core { 0x80 } else { 0 };
			let es = ExitStatus::from_raw(raw);
			if es.signal() != Some(sig) {
				rep.inconclusive("platform-does-not-see-terminating-signal");
				continue;
			}
			let pe = ProcessEnd::from(es);
			let got = match pe {
				ProcessEnd::ExitSignal(Signal::Custom(n)) => Some(n),
				ProcessEnd::ExitSignal(s) => os_number(s),
				_ => None,
			};
			if got != Some(sig) {
				rep.violation(
					"C19/term-signal",
					&format!("status killed-by-{sig} (core={core}) converts to {pe:?}"),
					json!({"raw": raw}),
				);
			}
			if matches!(pe, ProcessEnd::Success) {
				rep.violation(
					"C19/term-signal-success",
					&format!("status killed-by-{sig} converts to Success"),
					json!({"raw": raw}),
				);
			}
			if NixSignal::try_from(sig).is_ok() {
				let back = pe.into_exitstatus();
				if back.signal() != Some(sig) {
					rep.violation(
						"C19/term-signal-roundtrip",
						&format!("{pe:?}.into_exitstatus() has signal {:?}", back.signal()),
						json!({"raw": raw}),
					);
				}
			}
		}
	}

	// (7) every raw 16-bit wait status: the conversion is total (never panics), and whatever the other bits are an
	// exited status keeps its code and a signalled one keeps its signal (classification by the POSIX macros,
	// written out here independently of std's accessors)
	let mut raw_exited = 0u64;
	let mut raw_signalled = 0u64;
	let mut raw_other = 0u64;
	for raw in 0..=0xffffi32 {
		rep.eval();
		let low = raw & 0x7f;
		let r = std::panic::catch_unwind(|| ProcessEnd::from(ExitStatus::from_raw(raw)));
		let pe = match r {
			Ok(pe) => pe,
			Err(_) => {
				rep.violation(
					"C19/exit-status/panic",
					&format!("converting the raw wait status {raw:#06x} panics"),
					json!({"raw": raw}),
				);
				continue;
			}
		};
		if low == 0 {
			raw_exited += 1;
			let code = (raw >> 8) & 0xff;
			let ok = if code == 0 {
				pe == ProcessEnd::Success
			} else {
				matches!(pe, ProcessEnd::ExitError(c) if c.get() == i64::from(code))
			};
			if !ok {
				rep.violation(
					"C19/exit-code",
					&format!("raw status {raw:#06x} (exit code {code}) converts to {pe:?}"),
					json!({"raw": raw}),
				);
			}
		} else if low != 0x7f {
			raw_signalled += 1;
			if raw >> 8 == 0 {
				rep.nontrivial(hash_str(&format!("rawsig:{raw}")));
			}
			let got = match pe {
				ProcessEnd::ExitSignal(Signal::Custom(n)) => Some(n),
				ProcessEnd::ExitSignal(s) => os_number(s),
				_ => None,
			};
			if got != Some(low) {
				rep.violation(
					"C19/term-signal",
					&format!("raw status {raw:#06x} (killed by signal {low}) converts to {pe:?}"),
					json!({"raw": raw}),
				);
			}
		} else {
			// stopped / continued: not in the statement; only totality is judged
			raw_other += 1;
		}
	}
	rep.count("raw_wait_statuses_exited", raw_exited);
	rep.count("raw_wait_statuses_signalled", raw_signalled);
	rep.count("raw_wait_statuses_stopped_or_continued_totality_only", raw_other);

	// (8) numeric spellings the platform table does not know (0, negative, 32..=130, huge): either refused or the same
	// number comes back — never another signal
	let mut odd_numbers = 0u64;
	for n in (-3i64..=130).chain([255, 256, 65536, i64::from(i32::MAX), i64::from(i32::MAX) + 1, i64::from(i32::MIN)]) {
		for s in [n.to_string(), format!("+{n}"), format!("0{n}"), format!(" {n}"), format!("SIG{n}")] {
			rep.eval();
			odd_numbers += 1;
			rep.nontrivial(hash_str(&format!("num:{s}")));
			if let Ok(sig) = Signal::from_str(&s) {
				let back = match sig {
					Signal::Custom(k) => Some(i64::from(k)),
					other => os_number(other).map(i64::from),
				};
				if back != Some(n) {
					rep.violation(
						"C19/number-parse",
						&format!("{s:?} parses to {sig:?}, which is OS signal {back:?}"),
						json!({"input": s}),
					);
				}
			}
		}
	}
	rep.count("numeric_spellings_outside_the_platform_table", odd_numbers);

	rep.sample(json!({"display_roundtrip": {"signal": "Custom(17)", "display": Signal::Custom(17).to_string(),
		"parsed": format!("{:?}", Signal::from_str(&Signal::Custom(17).to_string()))}}));
	rep.sample(json!({"name_parse": {"input": "sTop", "parsed": format!("{:?}", Signal::from_str("sTop")),
		"unix_only": format!("{:?}", Signal::from_unix_str("sTop"))}}));
	rep.sample(json!({"exit_status": {"raw": 0x8b, "converted": format!("{:?}", ProcessEnd::from(ExitStatus::from_raw(0x8b)))}}));
}
