//! C14 — ignore-file discovery finds exactly the applicable files and prunes ignored directories.

use std::{
	collections::BTreeSet,
	path::{Path, PathBuf},
};

use ignore_files::{from_origin, IgnoreFilesFromOriginArgs};
use vcommon::{json, Fnv, Report, Rng, ShardArgs, Value};

use crate::c03::{oracle1, IgEntry, Scenario, Verdict};

const DIRNAMES: &[&str] = &["a", "ab", "abc", "test", "tests", "t", "x.d", "src", "src2", "node_modules", "target"];
const VCS_DIRS: &[&str] = &[".git", ".hg", ".bzr", "_darcs", ".fossil-settings", ".svn", ".pijul"];

#[derive(Clone, Debug)]
struct Tree {
	dirs: Vec<String>,
	/// (relative path, content) — ignore files and ordinary files
	files: Vec<(String, String)>,
	/// directories that are really files or files that are really directories: (rel, is_dir)
	odd: Vec<(String, bool)>,
	explicit_ignores: Vec<(String, String)>, // (name under <root>/explicit/, content)
	explicit_watches: Vec<String>,           // relative dirs
	excludes_file: Option<String>,           // content of core.excludesFile target
	/// ignore files (relative paths) that are symbolic links to a regular file kept outside the origin
	linked: Vec<String>,
	/// ignore files of the tree (relative paths) that are *also* given explicitly
	explicit_dups: Vec<String>,
	/// `.git/config` has two `[core]` sections, `excludesFile` sitting in the first
	split_core: bool,
}

fn gen_lines(rng: &mut Rng) -> String {
	let n = 1 + rng.usize(3);
	let mut v = vec![];
	for _ in 0..n {
		let names: Vec<&str> = DIRNAMES.to_vec();
		let body = match rng.below(8) {
			0 | 1 => format!("{}/", rng.pick(&names)),
			2 | 3 => (*rng.pick(&names)).to_string(),
			4 => format!("/{}", rng.pick(&names)),
			5 => format!("**/{}", rng.pick(&names)),
			6 => "*.tmp".to_string(),
			_ => format!("{}/{}", rng.pick(&names), rng.pick(&names)),
		};
		v.push(if rng.chance(1, 6) { format!("!{body}") } else { body });
	}
	v.join("\n") + "\n"
}

fn gen_tree(rng: &mut Rng) -> Tree {
	let mut dirs: Vec<String> = vec![];
	let mut level = vec![String::new()];
	for _depth in 0..4 {
		let mut next = vec![];
		for d in &level {
			let fan = match rng.below(4) {
				0 => 0,
				1 => 1,
				2 => 2,
				_ => 3 + rng.usize(2),
			};
			for _ in 0..fan {
				let name = *rng.pick(DIRNAMES);
				let c = if d.is_empty() { name.to_string() } else { format!("{d}/{name}") };
				if !dirs.contains(&c) {
					dirs.push(c.clone());
					next.push(c);
				}
			}
		}
		level = next;
		if dirs.len() > 24 {
			break;
		}
	}
	let mut files = vec![];
	let mut odd = vec![];
	let mut all = vec![String::new()];
	all.extend(dirs.iter().cloned());
	for d in &all {
		let j = |n: &str| if d.is_empty() { n.to_string() } else { format!("{d}/{n}") };
		for name in [".gitignore", ".ignore", ".hgignore"] {
			match rng.below(if d.is_empty() { 4 } else { 7 }) {
				0 => files.push((j(name), gen_lines(rng))),
				1 if rng.chance(1, 3) => files.push((j(name), String::new())), // empty: not returned
				2 if rng.chance(1, 6) => odd.push((j(name), true)),           // a directory of that name
				_ => {}
			}
		}
		if rng.chance(1, 3) {
			files.push((j("f.rs"), "x".into()));
		}
	}
	// VCS metadata directories, at the origin and deeper, with decoy ignore files inside
	for d in &all {
		if rng.chance(1, if d.is_empty() { 2 } else { 10 }) {
			let v = *rng.pick(VCS_DIRS);
			let vd = if d.is_empty() { v.to_string() } else { format!("{d}/{v}") };
			if !dirs.contains(&vd) {
				odd.push((vd.clone(), true));
				if rng.chance(1, 2) {
					files.push((format!("{vd}/.gitignore"), "decoy\n".into()));
				}
				if rng.chance(1, 3) {
					odd.push((format!("{vd}/sub"), true));
					files.push((format!("{vd}/sub/.ignore"), "decoy\n".into()));
				}
			}
		}
	}
	// origin-level VCS-specific files
	if rng.chance(1, 3) {
		files.push((".bzrignore".into(), gen_lines(rng)));
	}
	if rng.chance(1, 4) {
		odd.push(("_darcs".into(), true));
		odd.push(("_darcs/prefs".into(), true));
		files.push(("_darcs/prefs/boring".into(), gen_lines(rng)));
	}
	if rng.chance(1, 4) {
		odd.push((".fossil-settings".into(), true));
		files.push((".fossil-settings/ignore-glob".into(), gen_lines(rng)));
	}
	let mut excludes_file = None;
	if rng.chance(1, 3) {
		odd.push((".git".into(), true));
		odd.push((".git/info".into(), true));
		if rng.chance(2, 3) {
			files.push((".git/info/exclude".into(), gen_lines(rng)));
		}
		if rng.chance(1, 2) {
			excludes_file = Some(gen_lines(rng));
		}
	}
	let explicit_ignores = (0..rng.usize(3)).map(|i| (format!("explicit-{i}.ignore"), gen_lines(rng))).collect();
	// explicit watch list: directories of the tree, and / or paths outside the origin (written with a leading '/', taken
	// relative to the scenario's sandbox: a prefix-named sibling of the origin, an unrelated tree, the origin's parent,
	// the origin itself) — possibly nothing but unrelated ones
	let outside = ["/o-docs", "/elsewhere/x", "/ox", "/", "/o"];
	let explicit_watches: Vec<String> = if rng.chance(1, 3) && !dirs.is_empty() {
		(0..(1 + rng.usize(2)))
			.map(|_| if rng.chance(1, 4) { rng.pick(&outside).to_string() } else { rng.pick(&dirs).clone() })
			.collect()
	} else if rng.chance(1, 8) {
		(0..(1 + rng.usize(2))).map(|_| rng.pick(&outside[..3]).to_string()).collect()
	} else {
		vec![]
	};
	odd.sort();
	odd.dedup();
	let linked = files
		.iter()
		.filter(|(f, _)| {
			let name = f.rsplit('/').next().unwrap_or("");
			matches!(name, ".gitignore" | ".ignore" | ".hgignore") && rng.chance(1, 8)
		})
		.map(|(f, _)| f.clone())
		.collect();
	let candidates: Vec<String> = files
		.iter()
		.filter(|(f, c)| {
			let name = f.rsplit('/').next().unwrap_or("");
			matches!(name, ".gitignore" | ".ignore" | ".hgignore") && !c.trim().is_empty() && !f.starts_with(".git/")
		})
		.map(|(f, _)| f.clone())
		.collect();
	let explicit_dups = if !candidates.is_empty() && rng.chance(1, 6) { vec![rng.pick(&candidates).clone()] } else { vec![] };
	let split_core = rng.chance(1, 2);
	Tree { dirs, files, odd, explicit_ignores, explicit_watches, excludes_file, linked, explicit_dups, split_core }
}

fn materialise(root: &Path, t: &Tree, order_seed: u64) -> PathBuf {
	let origin = root.join("o");
	std::fs::create_dir_all(&origin).unwrap();
	std::fs::create_dir_all(root.join("explicit")).unwrap();
	// creation order varies with order_seed (tmpfs lists in creation order)
	let mut dirs: Vec<(String, bool)> = t.dirs.iter().map(|d| (d.clone(), true)).chain(t.odd.iter().filter(|o| o.1).map(|o| (o.0.clone(), true))).collect();
	let mut r = Rng::new(order_seed);
	if order_seed != 0 {
		r.shuffle(&mut dirs);
	}
	for (d, _) in &dirs {
		std::fs::create_dir_all(origin.join(d)).unwrap();
	}
	let mut files = t.files.clone();
	if order_seed != 0 {
		r.shuffle(&mut files);
	}
	for (f, c) in &files {
		let p = origin.join(f);
		if p.is_dir() {
			continue;
		}
		std::fs::create_dir_all(p.parent().unwrap()).unwrap();
		if t.linked.contains(f) {
			// the ignore file is a symbolic link to a regular file elsewhere (shared rules): it counts like the file
			let target = root.join("explicit").join(format!("shared-{}", f.replace('/', "_")));
			std::fs::write(&target, c).unwrap();
			std::os::unix::fs::symlink(&target, &p).unwrap();
		} else {
			std::fs::write(p, c).unwrap();
		}
	}
	for (n, c) in &t.explicit_ignores {
		std::fs::write(root.join("explicit").join(n), c).unwrap();
	}
	if let Some(c) = &t.excludes_file {
		let ex = root.join("explicit").join("core-excludes");
		std::fs::write(&ex, c).unwrap();
		let tail = if t.split_core { "[user]\n\tname = x\n[core]\n\tbare = false\n" } else { "" };
		std::fs::write(origin.join(".git/config"), format!("[core]\n\texcludesFile = {}\n{tail}", ex.display())).unwrap();
	}
	origin
}

type Found = BTreeSet<(String, Option<String>, Option<String>)>;

/// Independent walker: what the statement says discovery must return.
fn expected(root: &Path, origin: &Path, t: &Tree, vcs_deep: bool) -> Found {
	let mut out: Found = BTreeSet::new();
	let o = origin.display().to_string();
	let mut sc = Scenario { dirs: vec![], files: vec![], entries: vec![] };
	let nonempty = |p: &Path| std::fs::metadata(p).map(|m| m.is_file() && m.len() > 0).unwrap_or(false);
	let read_lines = |p: &Path| -> Vec<String> { std::fs::read_to_string(p).unwrap_or_default().lines().map(str::to_string).collect() };
	for (n, _) in &t.explicit_ignores {
		let p = root.join("explicit").join(n);
		out.insert((p.display().to_string(), Some(o.clone()), None));
		sc.entries.push(IgEntry { dir: Some(String::new()), lines: read_lines(&p) });
	}
	// a file of the tree given explicitly as well: it is returned in both roles (explicit: applying at the origin,
	// untyped; discovered: applying in its own directory, typed), and its lines apply in both scopes
	for rel in &t.explicit_dups {
		let p = origin.join(rel);
		if nonempty(&p) {
			out.insert((p.display().to_string(), Some(o.clone()), None));
			sc.entries.push(IgEntry { dir: Some(String::new()), lines: read_lines(&p) });
		}
	}
	if t.excludes_file.is_some() {
		let p = root.join("explicit").join("core-excludes");
		if nonempty(&p) {
			out.insert((p.display().to_string(), None, Some("Git".into())));
			sc.entries.push(IgEntry { dir: None, lines: read_lines(&p) });
		}
	}
	for (rel, ty) in [(".bzrignore", "Bazaar"), ("_darcs/prefs/boring", "Darcs"), (".fossil-settings/ignore-glob", "Fossil"), (".git/info/exclude", "Git")] {
		let p = origin.join(rel);
		if nonempty(&p) {
			out.insert((p.display().to_string(), Some(o.clone()), Some(ty.into())));
			sc.entries.push(IgEntry { dir: Some(String::new()), lines: read_lines(&p) });
		}
	}
	// walk
	let mut stack = vec![String::new()];
	while let Some(rel) = stack.pop() {
		let dir = if rel.is_empty() { origin.to_path_buf() } else { origin.join(&rel) };
		if !rel.is_empty() {
			let name = rel.rsplit('/').next().unwrap();
			let depth1 = !rel.contains('/');
			if VCS_DIRS.contains(&name) && (depth1 || vcs_deep) {
				continue;
			}
			if oracle1(&sc, &rel, true) == Verdict::Ignore {
				continue;
			}
		}
		// with an explicit watch list only directories below or above a watched path are visited (the origin included)
		if !t.explicit_watches.is_empty() {
			let related = t.explicit_watches.iter().map(|w| watch_path(origin, w)).any(|w| dir.starts_with(&w) || w.starts_with(&dir));
			if !related {
				continue;
			}
		}
		for (name, ty) in [(".ignore", None), (".gitignore", Some("Git")), (".hgignore", Some("Mercurial"))] {
			let p = dir.join(name);
			if nonempty(&p) {
				out.insert((p.display().to_string(), Some(dir.display().to_string()), ty.map(str::to_string)));
				sc.entries.push(IgEntry { dir: Some(rel.clone()), lines: read_lines(&p) });
			}
		}
		let mut subs: Vec<String> = std::fs::read_dir(&dir)
			.map(|rd| rd.flatten().filter(|e| e.file_type().map(|t| t.is_dir()).unwrap_or(false)).map(|e| e.file_name().to_string_lossy().to_string()).collect())
			.unwrap_or_default();
		subs.sort();
		for s in subs {
			stack.push(if rel.is_empty() { s } else { format!("{rel}/{s}") });
		}
	}
	out
}

/// A watch-list entry: relative to the origin, or (leading '/') relative to the sandbox that contains the origin.
fn watch_path(origin: &Path, w: &str) -> PathBuf {
	match w.strip_prefix('/') {
		Some("") => origin.parent().unwrap().to_path_buf(),
		Some(outside) => origin.parent().unwrap().join(outside),
		None => origin.join(w),
	}
}

async fn discover(root: &Path, origin: &Path, t: &Tree) -> (Found, Vec<String>) {
	let args = IgnoreFilesFromOriginArgs::new(
		origin,
		t.explicit_watches.iter().map(|w| watch_path(origin, w)).collect(),
		t.explicit_ignores.iter().map(|(n, _)| root.join("explicit").join(n)).chain(t.explicit_dups.iter().map(|r| origin.join(r))).collect(),
	)
	.expect("well-formed args");
	let (files, errors) = from_origin(args).await;
	(
		files
			.into_iter()
			.map(|f| (f.path.display().to_string(), f.applies_in.map(|p| p.display().to_string()), f.applies_to.map(|t| format!("{t:?}"))))
			.collect(),
		errors.into_iter().map(|e| e.to_string()).collect(),
	)
}

fn tree_json(t: &Tree) -> Value {
	json!({"dirs": t.dirs, "files": t.files.iter().map(|(f, c)| json!([f, c])).collect::<Vec<_>>(), "odd_dirs": t.odd,
		"explicit_ignores": t.explicit_ignores, "explicit_watches": t.explicit_watches, "core_excludes_file": t.excludes_file, "symlinked_ignore_files": t.linked, "also_given_explicitly": t.explicit_dups, "two_core_sections": t.split_core})
}

pub async fn run(args: &ShardArgs, rep: &mut Report) {
	let mut rng = args.rng();
	let n = if args.thorough() { 2500 } else { 300 };
	let budget = vcommon::Budget::new(args.budget);
	let shm = Path::new("/dev/shm");
	let use_shm = shm.is_dir() && std::fs::create_dir_all(shm.join(format!("verif-c14-{}", std::process::id()))).is_ok();
	let shm_base = shm.join(format!("verif-c14-{}", std::process::id()));
	let base = args.scratch.join("c14");
	for it in 0..n {
		if budget.exhausted() {
			rep.note("budget exhausted");
			break;
		}
		let t = gen_tree(&mut rng);
		let root = base.join(format!("s{it}"));
		std::fs::create_dir_all(&root).unwrap();
		let root = root.canonicalize().unwrap();
		let origin = materialise(&root, &t, 0);
		rep.eval();
		let (got, errors) = discover(&root, &origin, &t).await;
		let want_deep = expected(&root, &origin, &t, true);
		let rel = |s: &str| s.replace(&root.display().to_string(), "<root>");
		let wit = |extra: Value| json!({"tree": tree_json(&t), "detail": extra});
		if !errors.is_empty() {
			rep.violation("C14/errors-on-readable-tree", &format!("discovery reported errors on a readable tree: {errors:?}"), wit(json!({})));
		}
		let mut h = Fnv::default();
		for g in &got {
			h.str(&rel(&g.0));
		}
		if got.len() >= 2 {
			rep.nontrivial(h.finish());
		}
		rep.count("files_discovered", got.len() as u64);
		for m in want_deep.difference(&got) {
			rep.violation(
				&format!("C14/missing/{}", Path::new(&m.0).file_name().unwrap().to_string_lossy()),
				&format!("discovery omits {} (applies in {:?}, {:?})", rel(&m.0), m.1.as_deref().map(rel), m.2),
				wit(json!({"missing": rel(&m.0)})),
			);
		}
		for e in got.difference(&want_deep) {
			// classify: inside a VCS metadata directory below the origin? inside an ignored subtree? unrelated to watches?
			let p = Path::new(&e.0);
			let relp = p.strip_prefix(&origin).map(|r| r.display().to_string()).unwrap_or_default();
			let comps: Vec<&str> = relp.split('/').collect();
			let in_vcs = comps.iter().take(comps.len().saturating_sub(1)).any(|c| VCS_DIRS.contains(c));
			let same_path_other_meta = want_deep.iter().any(|w| w.0 == e.0);
			let class = if same_path_other_meta {
				"wrong-metadata"
			} else if in_vcs {
				"inside-vcs-metadata-dir"
			} else if !t.explicit_watches.is_empty() {
				"unexpected(with-explicit-watches)"
			} else {
				"inside-ignored-subtree-or-unexpected"
			};
			rep.violation(
				&format!("C14/extra/{class}"),
				&format!("discovery returned {} (applies in {:?}, {:?}) which the statement excludes", rel(&e.0), e.1.as_deref().map(rel), e.2),
				wit(json!({"extra": rel(&e.0)})),
			);
		}
		if it < 2 {
			rep.sample(json!({"tree": tree_json(&t), "discovered": got.iter().map(|g| json!([rel(&g.0), g.1.as_deref().map(rel), g.2])).collect::<Vec<_>>() }));
		}

		// listing-order independence: same logical tree, different creation order (tmpfs lists in creation order)
		for k in 1..=2u64 {
			let r2 = if use_shm { shm_base.join(format!("s{it}-{k}")) } else { base.join(format!("s{it}-{k}")) };
			std::fs::create_dir_all(&r2).unwrap();
			let r2 = r2.canonicalize().unwrap();
			let o2 = materialise(&r2, &t, it as u64 * 7 + k);
			let (got2, _) = discover(&r2, &o2, &t).await;
			let norm = |f: &Found, r: &Path| -> BTreeSet<(String, Option<String>, Option<String>)> {
				f.iter().map(|(a, b, c)| (a.replace(&r.display().to_string(), "<root>"), b.as_ref().map(|b| b.replace(&r.display().to_string(), "<root>")), c.clone())).collect()
			};
			rep.count("order_variants_compared", 1);
			if norm(&got, &root) != norm(&got2, &r2) {
				rep.violation(
					"C14/listing-order-dependence",
					"the same logical tree created in a different order yields a different discovery result",
					wit(json!({"first": norm(&got, &root).len(), "second": norm(&got2, &r2).len()})),
				);
			}
			std::fs::remove_dir_all(&r2).ok();
		}
		std::fs::remove_dir_all(&root).ok();
	}
	std::fs::remove_dir_all(&base).ok();
	if use_shm {
		std::fs::remove_dir_all(&shm_base).ok();
	}
}
