//! C12 — explicit CLI filters are honoured under all 64 combinations of the ignore-source flags,
//! and each flag removes exactly the sources it names. Uses hook H3 (argument pipeline + filterer).

use std::{ffi::OsString, path::Path};

use vcommon::{json, Fnv, Report, ShardArgs, Value};
use watchexec::filter::Filterer;
use watchexec_events::{
	filekind::{CreateKind, DataChange, FileEventKind, ModifyKind},
	Event, FileType, Priority, Tag,
};

const FLAGS: &[&str] = &["--no-vcs-ignore", "--no-project-ignore", "--no-global-ignore", "--no-default-ignore", "--no-discover-ignore", "--ignore-nothing"];

#[derive(Clone, Copy, Debug, PartialEq)]
enum Source {
	ProjVcs,
	ProjGeneric,
	GlobVcs,
	GlobApp,
	Default,
}

fn active(src: Source, set: u32) -> bool {
	let has = |name: &str| FLAGS.iter().position(|f| *f == name).map_or(false, |i| set & (1 << i) != 0);
	let (vcs, proj, glob, def, disc, nothing) = (
		has("--no-vcs-ignore"),
		has("--no-project-ignore"),
		has("--no-global-ignore"),
		has("--no-default-ignore"),
		has("--no-discover-ignore"),
		has("--ignore-nothing"),
	);
	match src {
		Source::ProjVcs => !(vcs || proj || disc || nothing),
		Source::ProjGeneric => !(proj || disc || nothing),
		Source::GlobVcs => !(vcs || glob || disc || nothing),
		Source::GlobApp => !(glob || disc || nothing),
		Source::Default => !(def || nothing),
	}
}

struct Fixture {
	/// a second project without any VCS metadata directory (its .gitignore is still a VCS ignore file)
	plain: std::path::PathBuf,
	/// a watched directory outside the project origin
	outside: std::path::PathBuf,
	proj: std::path::PathBuf,
	extra_ignore: std::path::PathBuf,
	filter_file: std::path::PathBuf,
}

fn fixture(root: &Path) -> Fixture {
	let proj = root.join("proj");
	let home = root.join("home");
	let xdg = root.join("xdg");
	for d in [proj.join(".git"), proj.join("sub"), home.clone(), xdg.join("git"), xdg.join("watchexec")] {
		std::fs::create_dir_all(d).unwrap();
	}
	std::fs::write(proj.join(".git/HEAD"), "ref: refs/heads/main\n").unwrap();
	std::fs::write(proj.join(".git/config"), "[core]\n\tbare = false\n").unwrap();
	std::fs::write(proj.join(".gitignore"), "vcs_proj.x\n").unwrap();
	std::fs::write(proj.join(".ignore"), "gen_proj.x\n").unwrap();
	std::fs::write(xdg.join("git/ignore"), "vcs_glob.x\n").unwrap();
	let plain = root.join("plain");
	let outside = root.join("outside");
	std::fs::create_dir_all(plain.join("sub")).unwrap();
	std::fs::create_dir_all(outside.join("sub")).unwrap();
	std::fs::write(plain.join(".gitignore"), "vcs_proj.x\n").unwrap();
	std::fs::write(plain.join(".ignore"), "gen_proj.x\n").unwrap();
	std::fs::write(xdg.join("watchexec/ignore"), "app_glob.x\n").unwrap();
	let extra_ignore = root.join("extra.ignore");
	// a file-name line and three lines that name directories (git style: everything below them is ignored too)
	std::fs::write(&extra_ignore, "# explicit ignore file\nexp_igf.x\nexpdir/\n/exp_rooted\nexpcache\n").unwrap();
	let filter_file = root.join("extra.filter");
	std::fs::write(&filter_file, "ff_*\n").unwrap();
	std::env::set_var("HOME", &home);
	std::env::set_var("XDG_CONFIG_HOME", &xdg);
	for v in ["GIT_CONFIG_GLOBAL", "GIT_CONFIG_SYSTEM", "GIT_CONFIG_COUNT", "GIT_DIR", "APPDATA", "USERPROFILE", "WATCHEXEC_IGNORE_FILES", "WATCHEXEC_FILTER_FILES"] {
		std::env::remove_var(v);
	}
	std::env::set_var("GIT_CONFIG_NOSYSTEM", "1");
	std::env::set_current_dir(&proj).unwrap();
	Fixture { plain, outside, proj, extra_ignore, filter_file }
}

fn ev(proj: &Path, name: &str, kind: FileEventKind) -> Event {
	// "OUT:<rel>" names a file under the watched directory outside the project origin
	let path = match name.strip_prefix("OUT:") {
		Some(rel) => proj.parent().expect("fixture root").join("outside").join(rel),
		None => proj.join(name),
	};
	Event {
		tags: vec![Tag::Path { path, file_type: Some(FileType::File) }, Tag::FileEventKind(kind)],
		metadata: Default::default(),
	}
}

pub async fn run(args: &ShardArgs, rep: &mut Report) {
	if args.shard != 0 {
		return; // the space is small and enumerated completely by one shard
	}
	rep.exhaustive = Some(true);
	let root = args.scratch.join("c12");
	std::fs::create_dir_all(&root).unwrap();
	let root = root.canonicalize().unwrap();
	let fx = fixture(&root);
	let modify = FileEventKind::Modify(ModifyKind::Data(DataChange::Content));
	let create = FileEventKind::Create(CreateKind::File);

	// explicit option sets: (name, argv, probes: (file, kind, expected pass))
	type Probes = Vec<(&'static str, FileEventKind, bool)>;
	let explicit: Vec<(&str, Vec<OsString>, Probes)> = vec![
		("none", vec![], vec![("plain.txt", modify, true)]),
		("--ignore", vec!["--ignore".into(), "exp_ign.x".into()], vec![("exp_ign.x", modify, false), ("plain.txt", modify, true)]),
		(
			"--ignore-file",
			vec!["--ignore-file".into(), fx.extra_ignore.clone().into()],
			vec![
				("exp_igf.x", modify, false),
				("expdir/inner.txt", modify, false),
				("sub/expdir/inner.txt", modify, false),
				("exp_rooted/inner.txt", modify, false),
				("sub/expcache/deep/inner.txt", modify, false),
				("plain.txt", modify, true),
				("sub/plain.txt", modify, true),
				// the second watched directory lies outside the project origin: the explicit file is not tied to the origin
				("OUT:exp_igf.x", modify, false),
				("OUT:sub/exp_igf.x", modify, false),
				("OUT:plain.txt", modify, true),
			],
		),
		// a negated explicit pattern re-includes what a built-in default pattern (*.py[co]) would ignore: explicit
		// patterns come after the defaults, so the file passes whether or not the defaults are switched off
		(
			"--ignore-negated",
			vec!["--ignore".into(), "!keep.pyc".into(), "--ignore".into(), "exp_ign.x".into()],
			vec![("keep.pyc", modify, true), ("sub/keep.pyc", modify, true), ("exp_ign.x", modify, false), ("plain.txt", modify, true)],
		),
		("--filter", vec!["--filter".into(), "f_*".into()], vec![("f_yes.txt", modify, true), ("plain.txt", modify, false)]),
		(
			"--filter-file",
			vec!["--filter-file".into(), fx.filter_file.clone().into()],
			vec![("ff_yes.txt", modify, true), ("plain.txt", modify, false)],
		),
		("--exts", vec!["--exts".into(), "rs".into()], vec![("a.rs", modify, true), ("plain.txt", modify, false)]),
		("--fs-events", vec!["--fs-events".into(), "create".into()], vec![("plain.txt", create, true), ("plain.txt", modify, false)]),
		(
			"all",
			vec![
				"--ignore".into(), "exp_ign.x".into(),
				"--ignore-file".into(), fx.extra_ignore.clone().into(),
				"--filter".into(), "f_*".into(),
				"--filter-file".into(), fx.filter_file.clone().into(),
				"--exts".into(), "rs".into(),
				"--fs-events".into(), "create,modify".into(),
			],
			vec![
				("exp_ign.x", modify, false), ("exp_igf.x", modify, false),
				("f_yes.txt", modify, true), ("ff_yes.txt", create, true), ("a.rs", modify, true), ("plain.txt", modify, false),
				("f_exp_ign.x", modify, true),
			],
		),
	];
	// probes hit by exactly one discovered / built-in source each
	let sources: Vec<(&str, Source)> = vec![
		("vcs_proj.x", Source::ProjVcs),
		("gen_proj.x", Source::ProjGeneric),
		("vcs_glob.x", Source::GlobVcs),
		("app_glob.x", Source::GlobApp),
		("m.pyc", Source::Default),
		(".git/x", Source::Default),
	];

	// second pass: the same project given through --project-origin while watchexec is started in a sub-directory that
	// has no VCS marker of its own (only the flag-removes-exactly-its-sources part, without explicit options)
	// third pass: a project without any VCS metadata directory. What applies there without flags is taken as the
	// baseline (set 0 comes first); a flag combination must switch off exactly the sources it names and leave the rest
	let mut plain_baseline: std::collections::BTreeMap<&str, bool> = Default::default();
	for (cwd_variant, set) in (0..64u32).map(|s| (0, s)).chain((0..64u32).map(|s| (1, s))).chain((0..64u32).map(|s| (2, s))) {
		let origin = if cwd_variant == 2 { fx.plain.clone() } else { fx.proj.clone() };
		std::env::set_current_dir(if cwd_variant == 1 { fx.proj.join("sub") } else { origin.clone() }).unwrap();
		let flags: Vec<&str> = FLAGS.iter().enumerate().filter(|(i, _)| set & (1 << i) != 0).map(|(_, f)| *f).collect();
		for (ename, eargs, probes) in &explicit {
			if cwd_variant == 1 && *ename != "none" {
				continue;
			}
			if cwd_variant == 2 && !matches!(*ename, "none" | "--ignore-file") {
				continue;
			}
			let mut argv: Vec<OsString> = vec!["watchexec".into()];
			argv.extend(flags.iter().map(|f| OsString::from(*f)));
			argv.extend(eargs.iter().cloned());
			argv.extend(["--project-origin".into(), origin.clone().into(), "-w".into(), origin.clone().into(), "-w".into(), fx.outside.clone().into(), "--".into(), "true".into()]);
			rep.eval();
			let mut h = Fnv::default();
			h.u64(u64::from(set)).u64(cwd_variant).str(ename);
			rep.nontrivial(h.finish());
			let cwd_name = ["<project>", "<project>/sub", "<project without VCS metadata>"][cwd_variant as usize];
			let wit = |extra: Value| json!({"argv": argv.iter().map(|a| a.to_string_lossy().to_string()).collect::<Vec<_>>(), "cwd": cwd_name, "detail": extra});
			let parsed = match watchexec_cli::verif::args_from(argv.clone()).await {
				Ok(a) => a,
				Err(e) => {
					rep.violation("C12/args-rejected", &format!("argument pipeline failed: {e}"), wit(json!({})));
					continue;
				}
			};
			let filterer = match watchexec_cli::verif::filterer(&parsed).await {
				Ok(f) => f,
				Err(e) => {
					rep.violation("C12/filterer-construction-failed", &format!("filterer construction failed: {e}"), wit(json!({})));
					continue;
				}
			};
			// (a) explicit options behave the same under every flag combination
			for (file, kind, want) in probes {
				rep.count("explicit_probes_judged", 1);
				let got = filterer.check_event(&ev(&origin, file, *kind), Priority::Normal).unwrap_or(true);
				if got != *want {
					rep.violation(
						&format!("C12/explicit/{ename}/{file}/{}", if *want { "wrongly-rejected" } else { "not-honoured" }),
						&format!(
							"with flags {flags:?} and explicit option {ename}: {file} ({kind:?}) {} but must {}",
							if got { "passes" } else { "is rejected" },
							if *want { "pass" } else { "be rejected" }
						),
						wit(json!({"probe": file})),
					);
				}
			}
			// (b) each flag removes exactly the sources it names (judged without filters that would reject everything)
			if matches!(*ename, "none" | "--ignore" | "--ignore-file") {
				for (file, src) in &sources {
					rep.count("source_probes_judged", 1);
					let got_pass = filterer.check_event(&ev(&origin, file, modify), Priority::Normal).unwrap_or(true);
					if cwd_variant == 2 && *file == ".git/x" {
						continue; // no such directory there
					}
					if cwd_variant == 2 && set == 0 {
						plain_baseline.insert(file, !got_pass);
						rep.count("plain_project_sources_on_without_flags", u64::from(!got_pass));
					}
					let want_pass = if cwd_variant == 2 { !(plain_baseline.get(file).copied().unwrap_or(false) && active(*src, set)) } else { !active(*src, set) };
					if got_pass != want_pass {
						rep.violation(
							&format!("C12/source/{src:?}/{}", if want_pass { "still-applied" } else { "dropped" }),
							&format!(
								"with flags {flags:?} (explicit: {ename}): source {src:?} must be {} but {file} {}",
								if want_pass { "off" } else { "on" },
								if got_pass { "passes" } else { "is rejected" }
							),
							wit(json!({"probe": file})),
						);
					}
				}
			}
			if set == 0 && *ename == "all" {
				rep.sample(json!({"argv": argv.iter().map(|a| a.to_string_lossy().to_string()).collect::<Vec<_>>(),
					"probes": probes.iter().map(|(f, k, w)| json!([f, format!("{k:?}"), w])).collect::<Vec<_>>() }));
			}
		}
	}
	std::env::set_current_dir("/").ok();
	std::fs::remove_dir_all(&root).ok();
}
