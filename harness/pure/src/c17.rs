//! C17 — path summaries handed to commands are faithful.

use std::{
	collections::{BTreeMap, BTreeSet, HashMap},
	ffi::OsString,
	os::unix::ffi::{OsStrExt, OsStringExt},
	path::{Component, Path, PathBuf},
};

use vcommon::{json, Fnv, Report, Rng, ShardArgs};
use watchexec_events::{filekind::*, Event, FileType, Tag};

use crate::c16::all_file_event_kinds;

/// Documented mapping (doc comment of `summarise_events_to_env`).
fn env_category(k: &FileEventKind) -> &'static str {
	match k {
		FileEventKind::Create(_) => "CREATED",
		FileEventKind::Modify(ModifyKind::Metadata(_)) => "META_CHANGED",
		FileEventKind::Remove(_) => "REMOVED",
		FileEventKind::Modify(ModifyKind::Name(_)) => "RENAMED",
		FileEventKind::Modify(ModifyKind::Data(_)) => "WRITTEN",
		FileEventKind::Access(AccessKind::Close(AccessMode::Write)) => "WRITTEN",
		_ => "OTHERWISE_CHANGED",
	}
}

/// Documented line prefixes of the stdin/file format (`--emit-events-to` help).
fn line_category(k: &FileEventKind) -> &'static str {
	match k {
		FileEventKind::Access(_) => "access",
		FileEventKind::Create(_) => "create",
		FileEventKind::Modify(_) => "modify",
		FileEventKind::Remove(_) => "remove",
		_ => "other",
	}
}

fn comps(p: &Path) -> Vec<Component<'_>> {
	p.components().collect()
}

fn gen_events(rng: &mut Rng, kinds: &[FileEventKind]) -> Vec<Event> {
	// a small directory universe so that prefixes are shared
	let roots = ["/w", "/w/proj", "/w/proj/src", "/w/proj/src/deep/er", "/w/proj2", "/x", "/w/proj/s"];
	let names = ["a.rs", "b.rs", "a", "src", "deep", "lib.rs", "é ü", "with space", "z*", "proj"];
	let nev = rng.usize(13);
	let base_idx = rng.usize(roots.len());
	let spread = rng.below(4); // 0: everything under one root
	let mut evs = Vec::new();
	let mut pool: Vec<PathBuf> = Vec::new();
	for _ in 0..nev {
		let npaths = match rng.below(8) {
			0 => 0,
			1..=5 => 1,
			6 => 2,
			_ => 1 + rng.usize(4),
		};
		let nkinds = match rng.below(8) {
			0 => 0,
			1..=5 => 1,
			6 => 2,
			_ => 3,
		};
		let mut tags = Vec::new();
		for _ in 0..npaths {
			let path = if !pool.is_empty() && rng.chance(1, 4) {
				rng.pick(&pool).clone() // duplicate across events
			} else {
				let root = if spread == 0 { roots[base_idx] } else { *rng.pick(&roots) };
				match rng.below(6) {
					0 => PathBuf::from(root), // path equal to a (possibly the common) directory
					1 => PathBuf::from(root).join(rng.pick(&names)).join(rng.pick(&names)),
					_ => PathBuf::from(root).join(rng.pick(&names)),
				}
			};
			pool.push(path.clone());
			let file_type = match rng.below(5) {
				0 => None,
				1 | 2 => Some(FileType::File),
				3 => Some(FileType::Dir),
				_ => Some(*rng.pick(&[FileType::Symlink, FileType::Other])),
			};
			tags.push(Tag::Path { path, file_type });
		}
		for _ in 0..nkinds {
			tags.push(Tag::FileEventKind(*rng.pick(kinds)));
		}
		if rng.chance(1, 5) {
			tags.push(Tag::Process(rng.next_u64() as u32));
		}
		rng.shuffle(&mut tags);
		evs.push(Event { tags, metadata: HashMap::new() });
	}
	evs
}

fn split_var(v: &OsString) -> Vec<Vec<u8>> {
	let b = v.as_bytes();
	b.split(|c| *c == b':').map(<[u8]>::to_vec).collect()
}

pub fn judge(rep: &mut Report, evs: &[Event], label: &str) {
	rep.eval();
	let summary: BTreeMap<String, OsString> = watchexec_cli::verif::emits_to_environment(evs).into_iter().collect();
	let direct = watchexec::paths::summarise_events_to_env(evs.iter());
	let witness = || json!({"case": label, "events": evs.iter().map(|e| e.to_string()).collect::<Vec<_>>(),
		"summary": summary.iter().map(|(k, v)| (k.clone(), v.to_string_lossy().to_string())).collect::<BTreeMap<_, _>>()});

	// the CLI variables are exactly WATCHEXEC_<K>_PATH of the library summary
	let renamed: BTreeMap<String, OsString> = direct.iter().map(|(k, v)| (format!("WATCHEXEC_{k}_PATH"), v.clone())).collect();
	if renamed != summary {
		rep.violation("C17/env/cli-vs-lib", "CLI environment differs from the library summary", witness());
	}

	// facts from the batch
	let mut pathed_all_have_kind = true;
	let mut any_pathed = false;
	let mut trunks: Vec<PathBuf> = Vec::new();
	let mut required: Vec<(&'static str, PathBuf)> = Vec::new();
	for ev in evs {
		let paths: Vec<(&Path, Option<&FileType>)> = ev.paths().collect();
		if paths.is_empty() {
			continue;
		}
		any_pathed = true;
		let kinds: Vec<&FileEventKind> = ev.tags.iter().filter_map(|t| if let Tag::FileEventKind(k) = t { Some(k) } else { None }).collect();
		if kinds.is_empty() {
			pathed_all_have_kind = false;
		}
		for (p, ft) in &paths {
			trunks.push(match ft {
				Some(FileType::Dir) => p.to_path_buf(),
				_ => p.parent().unwrap_or(p).to_path_buf(),
			});
			for k in &kinds {
				required.push((env_category(k), p.to_path_buf()));
			}
		}
	}

	let common = summary.get("WATCHEXEC_COMMON_PATH").map(PathBuf::from);
	if !any_pathed {
		if !summary.is_empty() {
			rep.violation("C17/env/vars-without-paths", "a batch without any pathed event produced variables", witness());
		}
		return;
	}
	rep.count("batches_with_paths", 1);
	let Some(common) = common else {
		rep.violation("C17/env/no-common", "pathed events but no COMMON variable", witness());
		return;
	};

	// COMMON is the longest common directory (when every pathed event carries a kind)
	if pathed_all_have_kind {
		rep.count("batches_common_judged", 1);
		let mut lcp: Vec<Component<'_>> = comps(&trunks[0]);
		for t in &trunks[1..] {
			let c = comps(t);
			let n = lcp.iter().zip(c.iter()).take_while(|(a, b)| a == b).count();
			lcp.truncate(n);
		}
		if comps(&common) != lcp {
			rep.violation(
				"C17/env/common-not-longest",
				&format!("COMMON is {common:?}, longest common directory is {:?}", lcp.iter().collect::<PathBuf>()),
				witness(),
			);
		}
	}

	// every (kind, path) appears in the variable of its category and joins back
	let mut justified: BTreeMap<String, BTreeSet<Vec<u8>>> = BTreeMap::new();
	for (cat, path) in &required {
		let var = format!("WATCHEXEC_{cat}_PATH");
		let entries = summary.get(&var).map(split_var).unwrap_or_default();
		let hit = entries.iter().find(|e| comps(&common.join(PathBuf::from(OsString::from_vec((*e).clone())))) == comps(path));
		match hit {
			Some(e) => {
				justified.entry(var).or_default().insert(e.clone());
			}
			None => rep.violation(
				&format!("C17/env/missing-entry/{cat}"),
				&format!("{path:?} (category {cat}) cannot be recovered from {var}={:?} with COMMON={common:?}", summary.get(&var)),
				witness(),
			),
		}
	}
	// nothing unjustified, entries unique and byte-sorted
	for (var, val) in &summary {
		if var == "WATCHEXEC_COMMON_PATH" {
			continue;
		}
		let entries = split_var(val);
		let mut sorted = entries.clone();
		sorted.sort();
		let mut dedup = sorted.clone();
		dedup.dedup();
		if dedup.len() != entries.len() {
			rep.violation("C17/env/duplicate-entry", &format!("{var} lists an entry twice: {val:?}"), witness());
		}
		if sorted != entries {
			rep.violation("C17/env/not-sorted", &format!("{var} is not byte-sorted: {val:?}"), witness());
		}
		let just = justified.get(var).cloned().unwrap_or_default();
		for e in &entries {
			if !just.contains(e) {
				rep.violation(
					&format!("C17/env/unjustified-entry/{}", var.trim_start_matches("WATCHEXEC_").trim_end_matches("_PATH")),
					&format!("{var} contains {:?} which no (kind, path) of the batch explains", String::from_utf8_lossy(e)),
					witness(),
				);
			}
		}
		rep.count("entries_judged", entries.len() as u64);
	}

	// the line format
	let mut want = String::new();
	for ev in evs {
		let kinds: Vec<&FileEventKind> = ev.tags.iter().filter_map(|t| if let Tag::FileEventKind(k) = t { Some(k) } else { None }).collect();
		for (p, _) in ev.paths() {
			if kinds.is_empty() {
				want.push_str(&format!("other:{}\n", p.to_string_lossy()));
			}
			for k in &kinds {
				want.push_str(&format!("{}:{}\n", line_category(k), p.to_string_lossy()));
			}
		}
	}
	match watchexec_cli::verif::events_to_simple_format(evs) {
		Ok(got) if got == want => {}
		Ok(got) => rep.violation(
			"C17/lines/differs",
			&format!("line format is {got:?}, expected {want:?}"),
			witness(),
		),
		Err(e) => rep.violation("C17/lines/error", &format!("line format failed: {e}"), witness()),
	}
}

pub fn run(args: &ShardArgs, rep: &mut Report) {
	let kinds = all_file_event_kinds();
	let mut rng = args.rng();

	if args.shard == 0 {
		// every kind alone, with a file and with a directory: category table, exhaustively
		for k in &kinds {
			for ft in [Some(FileType::File), Some(FileType::Dir), None] {
				let ev = Event {
					tags: vec![Tag::Path { path: "/w/proj/src/a.rs".into(), file_type: ft }, Tag::FileEventKind(*k)],
					metadata: HashMap::new(),
				};
				rep.nontrivial(Fnv::default().str(&format!("single:{k:?}:{ft:?}")).finish());
				judge(rep, &[ev], &format!("single {k:?} {ft:?}"));
			}
		}
		judge(rep, &[], "empty batch");
		judge(rep, &[Event::default()], "one empty event");
	}

	let n = if args.thorough() { 40_000 } else { 4_000 };
	for i in 0..n {
		let evs = gen_events(&mut rng, &kinds);
		let mut h = Fnv::default();
		let mut npaths = 0;
		for e in &evs {
			h.str("|");
			for t in &e.tags {
				match t {
					Tag::Path { path, file_type } => {
						npaths += 1;
						h.str(&format!("{}:{file_type:?}", path.display()));
					}
					Tag::FileEventKind(k) => {
						h.str(env_category(k));
					}
					_ => {}
				}
			}
		}
		if npaths >= 2 {
			rep.nontrivial(h.finish());
		}
		judge(rep, &evs, &format!("generated #{i}"));
		if i < 2 {
			rep.sample(json!({"events": evs.iter().map(|e| e.to_string()).collect::<Vec<_>>(),
				"env": watchexec_cli::verif::emits_to_environment(&evs).into_iter().map(|(k, v)| (k, v.to_string_lossy().to_string())).collect::<BTreeMap<_, _>>(),
				"lines": watchexec_cli::verif::events_to_simple_format(&evs).unwrap_or_default()}));
		}
	}
}
