//! C16 — events survive a JSON round trip, the format is stable, the decoder is total.

use std::{
	collections::HashMap,
	num::{NonZeroI32, NonZeroI64},
	panic::{catch_unwind, AssertUnwindSafe},
	path::PathBuf,
};

use serde_json::{Map, Value};
use vcommon::{hash_str, json, Report, Rng, ShardArgs};
use watchexec_events::{
	filekind::{
		AccessKind, AccessMode, CreateKind, DataChange, FileEventKind, MetadataKind, ModifyKind,
		RemoveKind, RenameMode,
	},
	Event, FileType, Keyboard, ProcessEnd, Source, Tag,
};
use watchexec_signals::Signal;

pub fn all_file_event_kinds() -> Vec<FileEventKind> {
	let modes = [
		AccessMode::Any,
		AccessMode::Execute,
		AccessMode::Read,
		AccessMode::Write,
		AccessMode::Other,
	];
	let mut v = vec![FileEventKind::Any, FileEventKind::Other];
	v.push(FileEventKind::Access(AccessKind::Any));
	v.push(FileEventKind::Access(AccessKind::Read));
	v.push(FileEventKind::Access(AccessKind::Other));
	for m in modes {
		v.push(FileEventKind::Access(AccessKind::Open(m)));
		v.push(FileEventKind::Access(AccessKind::Close(m)));
	}
	for c in [CreateKind::Any, CreateKind::File, CreateKind::Folder, CreateKind::Other] {
		v.push(FileEventKind::Create(c));
	}
	v.push(FileEventKind::Modify(ModifyKind::Any));
	v.push(FileEventKind::Modify(ModifyKind::Other));
	for d in [DataChange::Any, DataChange::Size, DataChange::Content, DataChange::Other] {
		v.push(FileEventKind::Modify(ModifyKind::Data(d)));
	}
	for m in [
		MetadataKind::Any,
		MetadataKind::AccessTime,
		MetadataKind::WriteTime,
		MetadataKind::Permissions,
		MetadataKind::Ownership,
		MetadataKind::Extended,
		MetadataKind::Other,
	] {
		v.push(FileEventKind::Modify(ModifyKind::Metadata(m)));
	}
	for r in [RenameMode::Any, RenameMode::To, RenameMode::From, RenameMode::Both, RenameMode::Other] {
		v.push(FileEventKind::Modify(ModifyKind::Name(r)));
	}
	for r in [RemoveKind::Any, RemoveKind::File, RemoveKind::Folder, RemoveKind::Other] {
		v.push(FileEventKind::Remove(r));
	}
	v
}

const FIRST_CLASS: &[(Signal, &str)] = &[
	(Signal::Hangup, "SIGHUP"),
	(Signal::ForceStop, "SIGKILL"),
	(Signal::Interrupt, "SIGINT"),
	(Signal::Quit, "SIGQUIT"),
	(Signal::Terminate, "SIGTERM"),
	(Signal::User1, "SIGUSR1"),
	(Signal::User2, "SIGUSR2"),
];

const SOURCES: &[(Source, &str)] = &[
	(Source::Filesystem, "filesystem"),
	(Source::Keyboard, "keyboard"),
	(Source::Mouse, "mouse"),
	(Source::Os, "os"),
	(Source::Time, "time"),
	(Source::Internal, "internal"),
];

const FILETYPES: &[(FileType, &str)] = &[
	(FileType::File, "file"),
	(FileType::Dir, "dir"),
	(FileType::Symlink, "symlink"),
	(FileType::Other, "other"),
];

/// Independent description of the documented wire format of one tag.
fn expected_tag_json(tag: &Tag) -> Value {
	let mut m = Map::new();
	match tag {
		Tag::Path { path, file_type } => {
			m.insert("kind".into(), "path".into());
			m.insert("absolute".into(), path.to_str().unwrap().into());
			if let Some(ft) = file_type {
				m.insert("filetype".into(), FILETYPES.iter().find(|t| t.0 == *ft).unwrap().1.into());
			}
		}
		Tag::FileEventKind(k) => {
			m.insert("kind".into(), "fs".into());
			m.insert(
				"simple".into(),
				match k {
					FileEventKind::Access(_) => "access",
					FileEventKind::Create(_) => "create",
					FileEventKind::Modify(_) => "modify",
					FileEventKind::Remove(_) => "remove",
					_ => "other",
				}
				.into(),
			);
			m.insert("full".into(), format!("{k:?}").into());
		}
		Tag::Source(s) => {
			m.insert("kind".into(), "source".into());
			m.insert("source".into(), SOURCES.iter().find(|t| t.0 == *s).unwrap().1.into());
		}
		Tag::Keyboard(Keyboard::Eof) => {
			m.insert("kind".into(), "keyboard".into());
			m.insert("keycode".into(), "eof".into());
		}
		Tag::Process(pid) => {
			m.insert("kind".into(), "process".into());
			m.insert("pid".into(), (*pid).into());
		}
		Tag::Signal(s) => {
			m.insert("kind".into(), "signal".into());
			m.insert("signal".into(), signal_json(*s));
		}
		Tag::ProcessCompletion(end) => {
			m.insert("kind".into(), "completion".into());
			let (disp, code, sig): (&str, Option<i64>, Option<Signal>) = match end {
				None => ("unknown", None, None),
				Some(ProcessEnd::Success) => ("success", None, None),
				Some(ProcessEnd::Continued) => ("continued", None, None),
				Some(ProcessEnd::ExitError(c)) => ("error", Some(c.get()), None),
				Some(ProcessEnd::ExitStop(c)) => ("stop", Some(c.get().into()), None),
				Some(ProcessEnd::Exception(c)) => ("exception", Some(c.get().into()), None),
				Some(ProcessEnd::ExitSignal(s)) => ("signal", None, Some(*s)),
			};
			m.insert("disposition".into(), disp.into());
			if let Some(c) = code {
				m.insert("code".into(), c.into());
			}
			if let Some(s) = sig {
				m.insert("signal".into(), signal_json(s));
			}
		}
		Tag::Unknown => {
			m.insert("kind".into(), "none".into());
		}
		_ => {
			m.insert("kind".into(), "?".into());
		}
	}
	Value::Object(m)
}

fn signal_json(s: Signal) -> Value {
	match s {
		Signal::Custom(n) => n.into(),
		other => FIRST_CLASS.iter().find(|t| t.0 == other).map_or(Value::Null, |t| t.1.into()),
	}
}

fn expected_event_json(ev: &Event) -> Value {
	let mut m = Map::new();
	if !ev.tags.is_empty() {
		m.insert("tags".into(), Value::Array(ev.tags.iter().map(expected_tag_json).collect()));
	}
	if !ev.metadata.is_empty() {
		// serde_json's Map is a BTreeMap here: sorted keys, as documented ("consistent order")
		let mut mm = Map::new();
		for (k, v) in &ev.metadata {
			mm.insert(k.clone(), Value::Array(v.iter().map(|s| Value::String(s.clone())).collect()));
		}
		m.insert("metadata".into(), Value::Object(mm));
	}
	Value::Object(m)
}

fn judge_roundtrip(rep: &mut Report, ev: &Event, class: &str) {
	rep.eval();
	let res = catch_unwind(AssertUnwindSafe(|| {
		let s = serde_json::to_string(ev).map_err(|e| format!("serialise: {e}"))?;
		let back: Event = serde_json::from_str(&s).map_err(|e| format!("parse {s}: {e}"))?;
		let val: Value = serde_json::from_str(&s).map_err(|e| format!("reparse: {e}"))?;
		Ok::<_, String>((s, back, val))
	}));
	match res {
		Err(_) => rep.violation(
			&format!("C16/roundtrip/{class}/panic"),
			&format!("serialising or parsing panicked for {ev:?}"),
			json!({"event": format!("{ev:?}")}),
		),
		Ok(Err(e)) => rep.violation(
			&format!("C16/roundtrip/{class}/error"),
			&format!("round trip failed: {e}"),
			json!({"event": format!("{ev:?}")}),
		),
		Ok(Ok((s, back, val))) => {
			if back != *ev {
				rep.violation(
					&format!("C16/roundtrip/{class}/not-equal"),
					&format!("{ev:?} -> {s} -> {back:?}"),
					json!({"event": format!("{ev:?}"), "json": s}),
				);
			}
			let want = expected_event_json(ev);
			if val != want {
				rep.violation(
					&format!("C16/format/{class}"),
					&format!("serialised form {val} differs from documented form {want}"),
					json!({"event": format!("{ev:?}"), "json": s, "expected": want}),
				);
			}
			// key order of metadata is sorted in the text itself (scan the JSON text, do not search it)
			if ev.metadata.len() > 1 {
				let keys = top_level_object_keys(&s, "metadata");
				let mut sorted = keys.clone();
				sorted.sort();
				if keys != sorted || keys.len() != ev.metadata.len() {
					rep.violation(
						"C16/format/metadata-order",
						&format!("metadata keys are serialised as {keys:?}, expected byte-sorted order {sorted:?}"),
						json!({"json": s}),
					);
				}
			}
		}
	}
}

/// Keys, in textual order, of the object that is the value of `field` in the top-level JSON object `text`.
fn top_level_object_keys(text: &str, field: &str) -> Vec<String> {
	let b = text.as_bytes();
	let mut i = 0usize;
	let mut depth = 0i32;
	let mut keys = vec![];
	let mut in_target = false;
	let mut target_depth = 0i32;
	let mut last_string_at_depth1: Option<String> = None;
	let mut expect_key = false;
	while i < b.len() {
		match b[i] {
			b'"' => {
				// read a JSON string
				let start = i;
				i += 1;
				while i < b.len() && b[i] != b'"' {
					if b[i] == b'\\' {
						i += 1;
					}
					i += 1;
				}
				let raw = &text[start..=i.min(b.len() - 1)];
				let val: String = serde_json::from_str(raw).unwrap_or_default();
				let is_key = b[i + 1..].iter().find(|c| !c.is_ascii_whitespace()) == Some(&b':');
				if is_key && depth == 1 {
					last_string_at_depth1 = Some(val);
				} else if is_key && in_target && depth == target_depth && expect_key {
					keys.push(val);
				}
			}
			b'{' | b'[' => {
				depth += 1;
				if b[i] == b'{' && depth == 2 && last_string_at_depth1.as_deref() == Some(field) && !in_target {
					in_target = true;
					target_depth = 2;
				}
				expect_key = b[i] == b'{';
			}
			b'}' | b']' => {
				if in_target && depth == target_depth && b[i] == b'}' {
					return keys;
				}
				depth -= 1;
				expect_key = true;
			}
			b',' => expect_key = true,
			_ => {}
		}
		i += 1;
	}
	keys
}

fn ev1(tag: Tag) -> Event {
	Event {
		tags: vec![tag],
		metadata: HashMap::new(),
	}
}

fn gen_string(rng: &mut Rng) -> String {
	const ALPH: &[&str] = &[
		"a", "b", "Z", "0", "9", " ", ".", "-", "_", "é", "ß", "日本", "🦀", "\\", "\"", "'", "\n", "\t", "%", "*", "?",
		"\u{7f}", "\u{0}", "\u{2028}", "{", "}", ":", ",",
	];
	let n = rng.usize(9);
	(0..n).map(|_| *rng.pick(ALPH)).collect()
}

fn gen_path(rng: &mut Rng) -> PathBuf {
	let mut p = String::new();
	if rng.chance(5, 6) {
		p.push('/');
	}
	let n = rng.usize(5);
	for i in 0..n {
		if i > 0 {
			p.push('/');
		}
		let mut c = gen_string(rng).replace(['/', '\u{0}'], "x");
		if c.is_empty() {
			c.push('p');
		}
		p.push_str(&c);
	}
	PathBuf::from(p)
}

fn boundary_i64(rng: &mut Rng) -> i64 {
	const B: &[i64] = &[
		1, -1, 2, 255, 256, 127, 128,
		i32::MAX as i64, i32::MAX as i64 + 1, i32::MAX as i64 - 1,
		i32::MIN as i64, i32::MIN as i64 - 1, i32::MIN as i64 + 1,
		i64::MAX, i64::MAX - 1, i64::MIN, i64::MIN + 1,
		u32::MAX as i64, u32::MAX as i64 + 1,
	];
	if rng.chance(2, 3) {
		*rng.pick(B)
	} else {
		let v = rng.next_u64() as i64;
		if v == 0 {
			1
		} else {
			v
		}
	}
}

fn gen_signal(rng: &mut Rng) -> Signal {
	if rng.chance(1, 2) {
		rng.pick(FIRST_CLASS).0
	} else {
		const B: &[i32] = &[0, 1, 9, 15, 31, 32, 34, 64, 66, -1, i32::MAX, i32::MIN, 255];
		Signal::Custom(if rng.chance(2, 3) { *rng.pick(B) } else { rng.next_u64() as i32 })
	}
}

fn gen_tag(rng: &mut Rng, kinds: &[FileEventKind]) -> Tag {
	match rng.below(8) {
		0 => Tag::Path {
			path: gen_path(rng),
			file_type: if rng.chance(1, 3) { None } else { Some(rng.pick(FILETYPES).0) },
		},
		1 => Tag::FileEventKind(*rng.pick(kinds)),
		2 => Tag::Source(rng.pick(SOURCES).0),
		3 => Tag::Keyboard(Keyboard::Eof),
		4 => Tag::Process(match rng.below(4) {
			0 => 0,
			1 => u32::MAX,
			2 => 1,
			_ => rng.next_u64() as u32,
		}),
		5 => Tag::Signal(gen_signal(rng)),
		6 => Tag::ProcessCompletion(match rng.below(7) {
			0 => None,
			1 => Some(ProcessEnd::Success),
			2 => Some(ProcessEnd::Continued),
			3 => Some(ProcessEnd::ExitError(NonZeroI64::new(boundary_i64(rng)).unwrap())),
			4 => Some(ProcessEnd::ExitSignal(gen_signal(rng))),
			5 => Some(ProcessEnd::ExitStop(nz32(rng))),
			_ => Some(ProcessEnd::Exception(nz32(rng))),
		}),
		_ => Tag::Unknown,
	}
}

fn nz32(rng: &mut Rng) -> NonZeroI32 {
	const B: &[i32] = &[1, -1, i32::MAX, i32::MIN, 255, 256, -255, 0x7fff_fffe];
	let v = if rng.chance(2, 3) { *rng.pick(B) } else { rng.next_u64() as i32 };
	NonZeroI32::new(if v == 0 { 7 } else { v }).unwrap()
}

fn tag_class(t: &Tag) -> &'static str {
	t.discriminant_name()
}

pub fn run(args: &ShardArgs, rep: &mut Report) {
	// self-test of the key-order scanner (a monitor that cannot see a break is worthless)
	assert_eq!(
		top_level_object_keys(r#"{"tags":[{"kind":"path","absolute":"/a\"},\"metadata\":{"}],"metadata":{"b":["x,\"y"],"a":[],"":["{"]}}"#, "metadata"),
		vec!["b".to_string(), "a".to_string(), String::new()]
	);
	let kinds = all_file_event_kinds();

	// --- exhaustive part (shard 0) ------------------------------------------------------------
	if args.shard == 0 && args.tier == "miri" && args.nshards > 1 {
		decoder_totality(rep, 0, args.nshards);
	}
	if args.shard == 0 && !(args.tier == "miri" && args.nshards > 1) {
		decoder_totality(rep, 0, 1);
	}
	if args.shard == 0 {
		for k in &kinds {
			rep.nontrivial(hash_str(&format!("fek:{k:?}")));
			rep.count("file_event_kinds", 1);
			judge_roundtrip(rep, &ev1(Tag::FileEventKind(*k)), "FileEventKind");
		}
		for (s, _) in FIRST_CLASS {
			rep.nontrivial(hash_str(&format!("sig:{s:?}")));
			judge_roundtrip(rep, &ev1(Tag::Signal(*s)), "Signal");
			judge_roundtrip(rep, &ev1(Tag::ProcessCompletion(Some(ProcessEnd::ExitSignal(*s)))), "ProcessCompletion");
		}
		for (s, _) in SOURCES {
			rep.nontrivial(hash_str(&format!("src:{s:?}")));
			judge_roundtrip(rep, &ev1(Tag::Source(*s)), "Source");
		}
		for ft in FILETYPES.iter().map(|t| Some(t.0)).chain([None]) {
			rep.nontrivial(hash_str(&format!("ft:{ft:?}")));
			judge_roundtrip(rep, &ev1(Tag::Path { path: "/a/b".into(), file_type: ft }), "Path");
		}
		judge_roundtrip(rep, &ev1(Tag::Keyboard(Keyboard::Eof)), "Keyboard");
		judge_roundtrip(rep, &ev1(Tag::Unknown), "Unknown");
		judge_roundtrip(rep, &Event::default(), "Empty");
		let b64: &[i64] = &[1, -1, 255, 256, i32::MAX as i64, i32::MAX as i64 + 1, i32::MIN as i64, i32::MIN as i64 - 1, i64::MAX, i64::MIN];
		for c in b64 {
			rep.nontrivial(hash_str(&format!("code:{c}")));
			judge_roundtrip(rep, &ev1(Tag::ProcessCompletion(Some(ProcessEnd::ExitError(NonZeroI64::new(*c).unwrap())))), "ProcessCompletion");
		}
		for c in [1, -1, 255, i32::MAX, i32::MIN] {
			judge_roundtrip(rep, &ev1(Tag::ProcessCompletion(Some(ProcessEnd::ExitStop(NonZeroI32::new(c).unwrap())))), "ProcessCompletion");
			judge_roundtrip(rep, &ev1(Tag::ProcessCompletion(Some(ProcessEnd::Exception(NonZeroI32::new(c).unwrap())))), "ProcessCompletion");
		}
		for p in [None, Some(ProcessEnd::Success), Some(ProcessEnd::Continued)] {
			judge_roundtrip(rep, &ev1(Tag::ProcessCompletion(p)), "ProcessCompletion");
		}
		for n in [0, 1, 9, 34, 66, -1, i32::MAX, i32::MIN] {
			judge_roundtrip(rep, &ev1(Tag::Signal(Signal::Custom(n))), "Signal");
		}
		for pid in [0u32, 1, u32::MAX] {
			judge_roundtrip(rep, &ev1(Tag::Process(pid)), "Process");
		}
	}
	if args.tier == "miri" && args.shard != 0 {
		// under the interpreter the decoder enumeration is spread over all shards
		decoder_totality(rep, args.shard, args.nshards);
	}

	// --- generated events -------------------------------------------------------------------------
	let mut rng = args.rng();
	let n = if args.tier == "miri" { 60 } else if args.thorough() { 60_000 } else { 6_000 };
	for i in 0..n {
		let ntags = rng.usize(9);
		let tags: Vec<Tag> = (0..ntags).map(|_| gen_tag(&mut rng, &kinds)).collect();
		let mut metadata = HashMap::new();
		for _ in 0..rng.usize(4) {
			let vals = (0..rng.usize(3)).map(|_| gen_string(&mut rng)).collect();
			metadata.insert(gen_string(&mut rng), vals);
		}
		let ev = Event { tags, metadata };
		let shape: Vec<&str> = ev.tags.iter().map(tag_class).collect();
		if ntags > 0 {
			rep.nontrivial(hash_str(&format!("{shape:?}/{}", ev.metadata.len())));
		}
		judge_roundtrip(rep, &ev, "generated");
		if i < 2 {
			rep.sample(json!({"event": format!("{ev}"), "json": serde_json::to_string(&ev).unwrap_or_default()}));
		}
	}
	// arrays of events (the json-stdio / json-file stream is one event per line; arrays are used by filter programs)
	for _ in 0..(n / 20) {
		let evs: Vec<Event> = (0..rng.usize(5))
			.map(|_| Event {
				tags: (0..rng.usize(4)).map(|_| gen_tag(&mut rng, &kinds)).collect(),
				metadata: HashMap::new(),
			})
			.collect();
		rep.eval();
		let ok = serde_json::to_string(&evs)
			.ok()
			.and_then(|s| serde_json::from_str::<Vec<Event>>(&s).ok())
			.map_or(false, |b| b == evs);
		if !ok {
			rep.violation("C16/roundtrip/array", &format!("array round trip failed for {evs:?}"), json!({"events": format!("{evs:?}")}));
		}
	}
}

/// For every known kind: all subsets of its own fields present/absent, plus irrelevant extra fields,
/// plus contradictory values. Parsing must succeed; the resulting tag must be of the declared kind
/// or Unknown; when an indispensable field is missing / invalid it must be exactly Unknown.
fn decoder_totality(rep: &mut Report, shard: usize, nshards: usize) {
	let mut counter = 0usize;
	let mut mine = move || {
		counter += 1;
		counter % nshards == shard
	};
	struct K {
		kind: &'static str,
		variant: &'static str,
		// candidate fields with a valid value each
		fields: Vec<(&'static str, Value)>,
		// does this set of present fields suffice?
		suffices: fn(&Map<String, Value>) -> Option<bool>, // None = unspecified (either declared kind or Unknown)
	}
	let kinds = vec![
		K { kind: "path", variant: "Path", fields: vec![("absolute", json!("/x/y")), ("filetype", json!("dir"))],
			suffices: |m| Some(m.contains_key("absolute")) },
		K { kind: "fs", variant: "FileEventKind", fields: vec![("simple", json!("modify")), ("full", json!("Modify(Data(Content))"))],
			suffices: |m| Some(m.contains_key("simple") || m.contains_key("full")) },
		K { kind: "source", variant: "Source", fields: vec![("source", json!("os"))],
			suffices: |m| Some(m.contains_key("source")) },
		K { kind: "keyboard", variant: "Keyboard", fields: vec![("keycode", json!("eof"))],
			suffices: |m| Some(m.contains_key("keycode")) },
		K { kind: "process", variant: "Process", fields: vec![("pid", json!(1234))],
			suffices: |m| Some(m.contains_key("pid")) },
		K { kind: "signal", variant: "Signal", fields: vec![("signal", json!("SIGTERM"))],
			suffices: |m| Some(m.contains_key("signal")) },
	];
	// irrelevant fields borrowed from other kinds + unknown ones
	let extras: Vec<(&str, Value)> = vec![
		("absolute", json!("/other")), ("filetype", json!("file")), ("simple", json!("create")), ("full", json!("Create(File)")),
		("source", json!("mouse")), ("keycode", json!("eof")), ("pid", json!(7)), ("signal", json!(9)),
		("disposition", json!("error")), ("code", json!(3)), ("unheard-of", json!({"a": [1, 2]})),
	];
	for k in &kinds {
		let nf = k.fields.len();
		for mask in 0..(1u32 << nf) {
			for extra_mask in 0..(1u32 << extras.len()) {
				// keep it small: at most 2 extras at once, and all-extras
				if extra_mask.count_ones() > 2 && extra_mask != (1 << extras.len()) - 1 {
					continue;
				}
				let mut m = Map::new();
				m.insert("kind".into(), k.kind.into());
				for (i, (n, v)) in k.fields.iter().enumerate() {
					if mask & (1 << i) != 0 {
						m.insert((*n).into(), v.clone());
					}
				}
				let own = m.clone();
				for (i, (n, v)) in extras.iter().enumerate() {
					if extra_mask & (1 << i) != 0 && !k.fields.iter().any(|f| f.0 == *n) {
						m.insert((*n).into(), v.clone());
					}
				}
				if mine() {
					judge_decode(rep, k.kind, k.variant, &m, (k.suffices)(&own));
				}
			}
		}
	}
	// completion: disposition x code x signal
	let disps = [None, Some("unknown"), Some("success"), Some("continued"), Some("error"), Some("signal"), Some("stop"), Some("exception")];
	let codes: Vec<Option<i64>> = vec![None, Some(0), Some(1), Some(-1), Some(255), Some(i32::MAX as i64), Some(i32::MAX as i64 + 1), Some(i32::MIN as i64), Some(i32::MIN as i64 - 1), Some(i64::MAX), Some(i64::MIN)];
	let sigs = [None, Some(json!("SIGINT")), Some(json!(34)), Some(json!(0))];
	for d in disps {
		for c in &codes {
			for s in &sigs {
				for extra in [false, true] {
					let mut m = Map::new();
					m.insert("kind".into(), "completion".into());
					if let Some(d) = d {
						m.insert("disposition".into(), d.into());
					}
					if let Some(c) = c {
						m.insert("code".into(), (*c).into());
					}
					if let Some(s) = s {
						m.insert("signal".into(), s.clone());
					}
					if extra {
						m.insert("pid".into(), 5.into());
						m.insert("absolute".into(), "/zz".into());
					}
					let in_i32 = |c: i64| i32::try_from(c).is_ok();
					let ok = match d {
						None | Some("unknown") | Some("success") | Some("continued") => true,
						Some("error") => matches!(c, Some(c) if *c != 0),
						Some("signal") => s.is_some(),
						Some("stop") | Some("exception") => matches!(c, Some(c) if *c != 0 && in_i32(*c)),
						_ => unreachable!(),
					};
					if mine() {
						judge_decode(rep, "completion", "ProcessCompletion", &m, Some(ok));
					}
				}
			}
		}
	}
	// the explicit "none" kind (objects without any `kind` are outside the statement: not "of a known kind")
	for m in [json!({"kind": "none"}), json!({"kind": "none", "absolute": "/a", "pid": 3})] {
		rep.eval();
		match serde_json::from_value::<Tag>(m.clone()) {
			Ok(Tag::Unknown) => {}
			other => rep.violation("C16/decode/kindless", &format!("{m} decoded to {other:?}, expected Unknown"), json!({"json": m})),
		}
	}
}

fn judge_decode(rep: &mut Report, kind: &str, variant: &str, m: &Map<String, Value>, suffices: Option<bool>) {
	rep.eval();
	rep.count("decoder_objects", 1);
	let v = Value::Object(m.clone());
	rep.nontrivial(hash_str(&v.to_string()));
	let res = catch_unwind(AssertUnwindSafe(|| serde_json::from_value::<Tag>(v.clone())));
	let keys: Vec<&String> = m.keys().filter(|k| *k != "kind").collect();
	match res {
		Err(_) => rep.violation(&format!("C16/decode/{kind}/panic"), &format!("decoding {v} panicked"), json!({"json": v})),
		Ok(Err(e)) => rep.violation(
			&format!("C16/decode/{kind}/fails"),
			&format!("decoding {v} failed ({e}) instead of giving an unknown tag"),
			json!({"json": v, "fields": keys}),
		),
		Ok(Ok(tag)) => {
			let got = tag.discriminant_name();
			if got != variant && got != "Unknown" {
				rep.violation(
					&format!("C16/decode/{kind}/mistaken-for-{got}"),
					&format!("{v} (kind {kind}) decoded as {tag:?}"),
					json!({"json": v}),
				);
			}
			match suffices {
				Some(false) if got != "Unknown" => rep.violation(
					&format!("C16/decode/{kind}/incomplete-not-unknown"),
					&format!("{v} lacks what kind {kind} needs but decoded as {tag:?}"),
					json!({"json": v}),
				),
				Some(true) if got != variant => rep.violation(
					&format!("C16/decode/{kind}/complete-but-{got}"),
					&format!("{v} is a complete {kind} tag but decoded as {tag:?}"),
					json!({"json": v}),
				),
				_ => {}
			}
		}
	}
}
