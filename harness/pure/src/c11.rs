//! C11 — path filter verdicts of the default (globset) filterer follow the documented rules.

use std::{
	ffi::OsString,
	panic::{catch_unwind, AssertUnwindSafe},
	path::{Path, PathBuf},
};

use ignore::gitignore::GitignoreBuilder;
use ignore_files::IgnoreFile;
use vcommon::{json, Fnv, Report, Rng, ShardArgs, Value};
use watchexec::filter::Filterer;
use watchexec_events::{Event, FileType, Priority, Tag};
use watchexec_filterer_globset::GlobsetFilterer;

use crate::c03::{parse_pat, Pat};

const NAMES: &[&str] = &["a", "ab", "src", "src2", "test", "tests", "x.d", "f.rs", "lib.rs", "keep.tmp", "x.tmp", "Makefile", ".hid", "n.txt"];
const EXTS: &[&str] = &["rs", "tmp", "d", "txt"];

fn gen_pattern(rng: &mut Rng, allow_neg: bool) -> String {
	let globs = ["*.rs", "*.tmp", "*.d", "*.txt", "x.*", "s*", "*"];
	let body = match rng.below(11) {
		0 | 1 => (*rng.pick(NAMES)).to_string(),
		2 | 3 => (*rng.pick(&globs)).to_string(),
		4 => format!("{}/", rng.pick(NAMES)),
		5 => format!("/{}", rng.pick(NAMES)),
		6 => format!("{}/{}", rng.pick(NAMES), rng.pick(NAMES)),
		7 => format!("**/{}", rng.pick(NAMES)),
		8 => format!("{}/**", rng.pick(NAMES)),
		9 => format!("/{}/", rng.pick(NAMES)),
		_ => format!("{}/{}", rng.pick(NAMES), rng.pick(&globs)),
	};
	if allow_neg && rng.chance(1, 8) {
		format!("!{body}")
	} else {
		body
	}
}

#[derive(Clone, Debug)]
struct Cfg {
	filters: Vec<String>,
	ignores: Vec<String>,
	exts: Vec<String>,
	whitelist: Vec<String>, // relative to origin
	ignore_file: Vec<String>, // lines of one ignore file applying at the origin
}

#[derive(Clone, Debug)]
struct Probe {
	path: PathBuf,
	rel: Option<String>,
	ft: Option<FileType>,
}

fn gen_rel(rng: &mut Rng) -> String {
	let depth = 1 + rng.usize(3);
	(0..depth).map(|_| *rng.pick(NAMES)).collect::<Vec<_>>().join("/")
}

fn comps_of<'a>(origin: &Path, p: &'a Path) -> Vec<String> {
	match p.strip_prefix(origin) {
		Ok(rel) => rel.components().map(|c| c.as_os_str().to_string_lossy().to_string()).collect(),
		Err(_) => p.components().filter(|c| !matches!(c, std::path::Component::RootDir)).map(|c| c.as_os_str().to_string_lossy().to_string()).collect(),
	}
}

/// last matching pattern decides: Some(true) = ignore-style match, Some(false) = negated
fn ref_match(pats: &[Pat], comps: &[String], is_dir: bool) -> Option<bool> {
	let c: Vec<&str> = comps.iter().map(String::as_str).collect();
	pats.iter().rev().find(|p| p.matches(&c, is_dir)).map(|p| !p.neg)
}

/// Does the `ignore` crate primitive agree with the reference matcher on this single (pattern, path)?
fn primitive_agrees(origin: &Path, line: &str, path: &Path, is_dir: bool, comps: &[String]) -> bool {
	let mut b = GitignoreBuilder::new(origin);
	if b.add_line(None, line).is_err() {
		return false;
	}
	let Ok(g) = b.build() else { return false };
	let prim = !g.matched(path, is_dir).is_none();
	let c: Vec<&str> = comps.iter().map(String::as_str).collect();
	let mine = parse_pat(line).map_or(false, |p| p.matches(&c, is_dir));
	prim == mine
}

pub async fn run(args: &ShardArgs, rep: &mut Report) {
	let mut rng = args.rng();
	let origin = args.scratch.join("c11-origin");
	std::fs::create_dir_all(&origin).unwrap();
	let origin = origin.canonicalize().unwrap();
	let n_cfg = if args.thorough() { 6000 } else { 700 };
	let budget = vcommon::Budget::new(args.budget);

	// L1: the empty configuration passes everything
	let empty = build(&origin, &Cfg { filters: vec![], ignores: vec![], exts: vec![], whitelist: vec![], ignore_file: vec![] }, &origin.join(".c11-empty-ig")).await;
	for _ in 0..200 {
		let ev = gen_event(&mut rng, &origin).0;
		rep.eval();
		if let Ok(f) = &empty {
			if f.check_event(&ev, Priority::Normal).ok() != Some(true) {
				rep.violation("C11/empty-config-rejects", &format!("empty configuration rejected {ev}"), json!({"event": ev.to_string()}));
			}
		}
	}

	for ci in 0..n_cfg {
		if budget.exhausted() {
			rep.note("budget exhausted");
			break;
		}
		let mut cfg = Cfg {
			filters: (0..pickn(&mut rng, &[0, 0, 1, 1, 2, 3])).map(|_| gen_pattern(&mut rng, false)).collect(),
			ignores: (0..pickn(&mut rng, &[0, 0, 1, 1, 2, 3])).map(|_| gen_pattern(&mut rng, true)).collect(),
			exts: (0..pickn(&mut rng, &[0, 0, 0, 1, 2])).map(|_| (*rng.pick(EXTS)).to_string()).collect(),
			// none, one, or several explicitly watched files in no particular order
			whitelist: (0..pickn(&mut rng, &[0, 0, 0, 1, 1, 3, 5])).map(|_| gen_rel(&mut rng)).collect(),
			ignore_file: (0..pickn(&mut rng, &[0, 0, 0, 1, 2])).map(|_| gen_pattern(&mut rng, false)).collect(),
		};
		// a pattern given more than once: the later copy counts again (the last matching pattern decides), which shows
		// when a negation sits between the copies — P, !P, P as a directed shape, and a random earlier entry repeated
		match rng.below(8) {
			0 => {
				let p = gen_pattern(&mut rng, false);
				cfg.ignores.extend([p.clone(), format!("!{p}"), p]);
				rep.count("configs_with_a_repeated_ignore_pattern", 1);
			}
			1 | 2 if cfg.ignores.len() >= 2 => {
				let again = cfg.ignores[rng.usize(cfg.ignores.len() - 1)].clone();
				cfg.ignores.push(again);
				rep.count("configs_with_a_repeated_ignore_pattern", 1);
			}
			3 if !cfg.filters.is_empty() => {
				let again = cfg.filters[rng.usize(cfg.filters.len())].clone();
				cfg.filters.push(again);
			}
			_ => {}
		}
		let cfg = cfg;
		let igpath = origin.join(format!(".c11-ig-{}", ci % 4));
		let filterer = match build(&origin, &cfg, &igpath).await {
			Ok(f) => f,
			Err(e) => {
				rep.inconclusive("filterer-construction-error");
				rep.note(e);
				continue;
			}
		};
		// the same configuration plus one more non-negated ignore pattern (law L2)
		let positive: Vec<&String> = cfg.ignores.iter().filter(|l| !l.starts_with('!')).collect();
		let extra = if !positive.is_empty() && rng.chance(1, 3) {
			// ... which may be one that is there already
			(*rng.pick(&positive)).clone()
		} else {
			gen_pattern(&mut rng, false)
		};
		let mut cfg2 = cfg.clone();
		cfg2.ignores.push(extra.clone());
		let filterer2 = build(&origin, &cfg2, &igpath).await.ok();

		let fpats: Vec<Pat> = cfg.filters.iter().filter_map(|l| parse_pat(l)).collect();
		let ipats: Vec<Pat> = cfg.ignores.iter().filter_map(|l| parse_pat(l)).collect();
		let gpats: Vec<Pat> = cfg.ignore_file.iter().filter_map(|l| parse_pat(l)).collect();
		let any_filter = fpats.iter().any(|p| !p.neg);

		for pi in 0..40 {
			let (ev, probes) = gen_event_with(&mut rng, &origin, &cfg);
			rep.eval();
			let got = match catch_unwind(AssertUnwindSafe(|| filterer.check_event(&ev, Priority::Normal))) {
				Ok(Ok(v)) => v,
				Ok(Err(e)) => {
					rep.violation("C11/filter-error", &format!("check_event errored: {e}"), wit(&cfg, &ev));
					continue;
				}
				Err(_) => {
					rep.violation("C11/filter-panic", "check_event panicked", wit(&cfg, &ev));
					continue;
				}
			};

			// --- oracle from the statement -------------------------------------------------------
			let mut ambiguous = false;
			for p in &probes {
				let is_dir = matches!(p.ft, Some(FileType::Dir));
				let comps = comps_of(&origin, &p.path);
				for line in cfg.filters.iter().chain(cfg.ignores.iter()) {
					if !primitive_agrees(&origin, line, &p.path, is_dir, &comps) {
						ambiguous = true;
					}
				}
			}
			let whitelisted = probes.iter().any(|p| p.rel.as_ref().map_or(false, |r| cfg.whitelist.contains(r)));
			let expected: Option<bool> = if probes.is_empty() {
				Some(true)
			} else if whitelisted {
				Some(true)
			} else {
				// ignore-file layer (one file at the origin, no negations): path or any parent matched
				let ig_hits: Vec<bool> = probes
					.iter()
					.map(|p| match &p.rel {
						Some(rel) => {
							let comps: Vec<&str> = rel.split('/').collect();
							crate::c03::eval_dir(&gpats, &comps, matches!(p.ft, Some(FileType::Dir))) == crate::c03::Verdict::Ignore
						}
						None => false,
					})
					.collect();
				if ig_hits.iter().any(|h| *h) {
					Some(false)
				} else {
					Some(probes.iter().any(|p| {
						let is_dir = matches!(p.ft, Some(FileType::Dir));
						let comps = comps_of(&origin, &p.path);
						if ref_match(&ipats, &comps, is_dir) == Some(true) {
							return false;
						}
						let mut configured = false;
						if any_filter {
							configured = true;
							if ref_match(&fpats, &comps, is_dir) == Some(true) {
								return true;
							}
						}
						if !cfg.exts.is_empty() {
							configured = true;
							if !is_dir {
								if let Some(ext) = p.path.extension().and_then(|e| e.to_str()) {
									if cfg.exts.iter().any(|e| e == ext) {
										return true;
									}
								}
							}
						}
						!configured
					}))
				}
			};
			let class = format!(
				"{}p/{}{}{}{}{}",
				probes.len(),
				if any_filter { "F" } else { "" },
				if ipats.is_empty() { "" } else { "I" },
				if cfg.exts.is_empty() { "" } else { "E" },
				if cfg.whitelist.is_empty() { "" } else { "W" },
				if gpats.is_empty() { "" } else { "G" }
			);
			if ambiguous {
				rep.inconclusive("oracle-ambiguous(reference matcher vs ignore-crate primitive)");
			} else if let Some(exp) = expected {
				rep.count("verdicts_judged", 1);
				let mut h = Fnv::default();
				h.str(&class).str(if exp { "pass" } else { "reject" });
				for p in &probes {
					h.str(&format!("{:?}", p.ft));
				}
				if !probes.is_empty() && class.len() > 3 {
					rep.nontrivial(h.u64((ci * 64 + pi) as u64 % 97).finish());
				}
				if got != exp {
					rep.violation(
						&format!("C11/verdict/{}/expected-{}", class, if exp { "pass" } else { "reject" }),
						&format!("event {ev} : filterer says {}, the documented rules say {}", verdict(got), verdict(exp)),
						wit(&cfg, &ev),
					);
				}
			}

			// --- metamorphic laws (no matcher involved) ----------------------------------------------
			if let Some(f2) = &filterer2 {
				if let Ok(got2) = f2.check_event(&ev, Priority::Normal) {
					rep.count("law_pairs_judged", 1);
					if !got && got2 {
						rep.violation(
							"C11/law/extra-ignore-turns-reject-into-pass",
							&format!("adding ignore pattern {extra:?} turned a rejection of {ev} into a pass"),
							wit(&cfg, &ev),
						);
					}
				}
			}
			if whitelisted && !got {
				rep.violation("C11/law/whitelisted-rejected", &format!("{ev} names an explicitly watched file but was rejected"), wit(&cfg, &ev));
			}
			if pi < 1 && ci < 2 {
				rep.sample(json!({"config": cfg_json(&cfg), "event": ev.to_string(), "verdict": verdict(got), "oracle": expected.map(verdict)}));
			}
		}
		std::fs::remove_file(&igpath).ok();
	}
	std::fs::remove_dir_all(&origin).ok();
}

fn pickn(rng: &mut Rng, v: &[usize]) -> usize {
	*rng.pick(v)
}

fn verdict(b: bool) -> &'static str {
	if b {
		"pass"
	} else {
		"reject"
	}
}

fn cfg_json(c: &Cfg) -> Value {
	json!({"filters": c.filters, "ignores": c.ignores, "extensions": c.exts, "whitelist": c.whitelist, "ignore_file_at_origin": c.ignore_file})
}

fn wit(c: &Cfg, ev: &Event) -> Value {
	json!({"config": cfg_json(c), "event": ev.to_string()})
}

async fn build(origin: &Path, c: &Cfg, igpath: &Path) -> Result<GlobsetFilterer, String> {
	let mut files = vec![];
	if !c.ignore_file.is_empty() {
		std::fs::write(igpath, c.ignore_file.join("\n") + "\n").map_err(|e| e.to_string())?;
		files.push(IgnoreFile { path: igpath.to_path_buf(), applies_in: Some(origin.to_path_buf()), applies_to: None });
	}
	GlobsetFilterer::new(
		origin,
		c.filters.iter().map(|f| (f.clone(), Some(origin.to_path_buf()))),
		c.ignores.iter().map(|f| (f.clone(), Some(origin.to_path_buf()))),
		c.whitelist.iter().map(|w| origin.join(w)),
		files,
		c.exts.iter().map(OsString::from),
	)
	.await
	.map_err(|e| e.to_string())
}

fn gen_event(rng: &mut Rng, origin: &Path) -> (Event, Vec<Probe>) {
	gen_event_with(rng, origin, &Cfg { filters: vec![], ignores: vec![], exts: vec![], whitelist: vec![], ignore_file: vec![] })
}

fn gen_event_with(rng: &mut Rng, origin: &Path, cfg: &Cfg) -> (Event, Vec<Probe>) {
	let np = match rng.below(12) {
		0 => 0,
		1..=8 => 1,
		9 | 10 => 2,
		_ => 3,
	};
	let mut probes = vec![];
	let mut tags = vec![];
	for _ in 0..np {
		let (path, rel) = if !cfg.whitelist.is_empty() && rng.chance(1, 6) {
			let r = rng.pick(&cfg.whitelist).clone();
			(origin.join(&r), Some(r))
		} else if rng.chance(1, 8) {
			(PathBuf::from("/elsewhere").join(gen_rel(rng)), None)
		} else {
			let r = gen_rel(rng);
			(origin.join(&r), Some(r))
		};
		let ft = match rng.below(6) {
			0 => None,
			1 | 2 | 3 => Some(FileType::File),
			4 => Some(FileType::Dir),
			_ => Some(FileType::Symlink),
		};
		tags.push(Tag::Path { path: path.clone(), file_type: ft });
		probes.push(Probe { path, rel, ft });
	}
	if rng.chance(1, 2) {
		tags.push(Tag::Source(watchexec_events::Source::Filesystem));
	}
	(Event { tags, metadata: Default::default() }, probes)
}
