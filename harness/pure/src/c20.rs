//! C20 — project origins are exactly the marked ancestors; types match markers; vcs XOR soft.

use std::{
	collections::{BTreeSet, HashSet},
	path::{Path, PathBuf},
};

use project_origins::ProjectType;
use vcommon::{hash_str, json, Fnv, Report, ShardArgs};

#[derive(Clone, Copy, PartialEq, Eq, Debug)]
enum Node {
	File,
	Dir,
}
use Node::{Dir, File};

/// Markers that make a directory an origin (name, required node type).
const ORIGIN_MARKERS: &[(&str, Node)] = &[
	("_darcs", Dir),
	(".bzr", Dir),
	(".fossil-settings", Dir),
	(".git", Dir),
	(".github", Dir),
	(".hg", Dir),
	(".svn", Dir),
	(".asf.yaml", File),
	(".bzrignore", File),
	(".codecov.yml", File),
	(".ctags", File),
	(".editorconfig", File),
	(".git", File),
	(".gitattributes", File),
	(".gitmodules", File),
	(".hgignore", File),
	(".hgtags", File),
	(".perltidyrc", File),
	(".travis.yml", File),
	("appveyor.yml", File),
	("build.gradle", File),
	("build.properties", File),
	("build.xml", File),
	("Cargo.toml", File),
	("Cargo.lock", File),
	("cgmanifest.json", File),
	("CMakeLists.txt", File),
	("composer.json", File),
	("COPYING", File),
	("docker-compose.yml", File),
	("Dockerfile", File),
	("Gemfile", File),
	("LICENSE.txt", File),
	("LICENSE", File),
	("Makefile.am", File),
	("Makefile.pl", File),
	("Makefile.PL", File),
	("Makefile", File),
	("mix.exs", File),
	("moonshine-dependencies.xml", File),
	("package.json", File),
	("package-lock.json", File),
	("pnpm-lock.yaml", File),
	("yarn.lock", File),
	("pom.xml", File),
	("project.clj", File),
	("requirements.txt", File),
	("v.mod", File),
	("CONTRIBUTING.md", File),
	("go.mod", File),
	("go.sum", File),
	("Pipfile", File),
	("build.zig", File),
];

/// Markers of project types, transcribed from the documentation of each `ProjectType` variant.
fn type_markers() -> Vec<(&'static str, Node, ProjectType)> {
	use ProjectType::*;
	vec![
		(".bzr", Dir, Bazaar),
		(".bzrignore", File, Bazaar),
		("_darcs", Dir, Darcs),
		(".fossil-settings", Dir, Fossil),
		(".git", Dir, Git),
		(".git", File, Git),
		(".gitattributes", File, Git),
		(".gitmodules", File, Git),
		(".hg", Dir, Mercurial),
		(".hgignore", File, Mercurial),
		(".hgtags", File, Mercurial),
		(".svn", Dir, Subversion),
		("Gemfile", File, Bundler),
		(".ctags", File, C),
		("Cargo.toml", File, Cargo),
		("Dockerfile", File, Docker),
		("mix.exs", File, Elixir),
		("go.mod", File, Go),
		("go.sum", File, Go),
		("build.gradle", File, Gradle),
		("package.json", File, JavaScript),
		("cgmanifest.json", File, JavaScript),
		("project.clj", File, Leiningen),
		("pom.xml", File, Maven),
		(".perltidyrc", File, Perl),
		("Makefile.PL", File, Perl),
		("composer.json", File, PHP),
		("requirements.txt", File, Pip),
		("Pipfile", File, Pip),
		("v.mod", File, V),
		("build.zig", File, Zig),
	]
}

/// Documented classification ("VCS:" / "Soft:" prefix of each variant's doc comment).
fn documented_class(t: ProjectType) -> Option<&'static str> {
	use ProjectType::*;
	Some(match t {
		Bazaar | Darcs | Fossil | Git | Mercurial | Pijul | Subversion => "vcs",
		Bundler | C | Cargo | Docker | Elixir | Go | Gradle | JavaScript | Leiningen | Maven
		| Perl | PHP | Pip | V | Zig => "soft",
		_ => return None,
	})
}

fn node_of(p: &Path) -> Option<Node> {
	// like read_dir's file_type(): no symlink following
	let md = std::fs::symlink_metadata(p).ok()?;
	if md.is_dir() {
		Some(Dir)
	} else if md.is_file() {
		Some(File)
	} else {
		None
	}
}

/// Independent rule: a directory is an origin iff it holds ≥1 origin marker of the right type.
fn is_origin_by_rule(dir: &Path) -> bool {
	ORIGIN_MARKERS
		.iter()
		.any(|(name, node)| node_of(&dir.join(name)) == Some(*node))
}

fn types_by_rule(dir: &Path) -> BTreeSet<String> {
	type_markers()
		.into_iter()
		.filter(|(name, node, _)| node_of(&dir.join(name)) == Some(*node))
		.map(|(_, _, t)| format!("{t:?}"))
		.collect()
}

pub async fn run(args: &ShardArgs, rep: &mut Report) {
	// (A) exhaustive over the enumeration: vcs XOR soft, and equal to the documented class
	if args.shard == 0 {
		for t in ProjectType::verif_all() {
			rep.eval();
			rep.nontrivial(hash_str(&format!("class:{t:?}")));
			rep.count("project_types_classified", 1);
			let (v, s) = (t.is_vcs(), t.is_soft());
			if v == s {
				rep.violation(
					&format!("C20/class/{t:?}/{}", if v { "both" } else { "neither" }),
					&format!("ProjectType::{t:?}: is_vcs={v} is_soft={s} (must be exactly one)"),
					json!({"type": format!("{t:?}")}),
				);
			} else if let Some(doc) = documented_class(t) {
				if (doc == "vcs") != v {
					rep.violation(
						&format!("C20/class/{t:?}/contradicts-doc"),
						&format!("ProjectType::{t:?} documented as {doc} but is_vcs={v}"),
						json!({"type": format!("{t:?}")}),
					);
				}
			}
		}
		// single-marker table, exhaustively, with the right and the wrong node type
		let base = args.scratch.join("c20-table");
		let mut names: Vec<&str> = ORIGIN_MARKERS.iter().map(|m| m.0).collect();
		names.sort_unstable();
		names.dedup();
		for name in names {
			for node in [File, Dir] {
				rep.eval();
				rep.nontrivial(hash_str(&format!("table:{name}:{node:?}")));
				let d = base.join(format!("{}-{node:?}", name.replace('.', "_")));
				let leaf = d.join("leaf");
				std::fs::create_dir_all(&leaf).unwrap();
				place(&leaf, name, node);
				check_dir(rep, &leaf, &leaf, &format!("table:{name}:{node:?}")).await;
			}
		}
		std::fs::remove_dir_all(&base).ok();
	}

	// (B) generated chains
	let mut rng = args.rng();
	let n = if args.thorough() { 1500 } else { 250 };
	let base = args.scratch.join(format!("c20-{}", args.shard));
	let all_names: Vec<(&str, Node)> = ORIGIN_MARKERS.to_vec();
	for it in 0..n {
		let root = base.join(format!("s{it}"));
		let depth = 1 + rng.usize(5);
		let mut chain = vec![root.join("root")];
		for k in 0..depth {
			let last = chain.last().unwrap().clone();
			chain.push(last.join(format!("d{k}")));
		}
		std::fs::create_dir_all(chain.last().unwrap()).unwrap();
		let mut desc = Vec::new();
		for (lvl, dir) in chain.iter().enumerate() {
			let nmark = match rng.below(10) {
				0..=3 => 0,
				4..=6 => 1,
				7..=8 => 2,
				_ => 4,
			};
			for _ in 0..nmark {
				let (name, node) = *rng.pick(&all_names);
				// 1 in 4: wrong node type
				let actual = if rng.chance(1, 4) {
					if node == File {
						Dir
					} else {
						File
					}
				} else {
					node
				};
				// never clobber the next chain element or an existing entry
				if dir.join(name).exists() {
					continue;
				}
				place(dir, name, actual);
				desc.push(format!("{lvl}:{name}:{actual:?}"));
			}
			// decoys with a marker's name that are neither a regular file nor a directory under any reading: a dangling
			// symbolic link and a FIFO (a link to an existing file or directory is left out: whether that counts as the
			// marker depends on whether links are followed, which the statement does not say)
			if rng.chance(1, 5) {
				let (name, _) = *rng.pick(&all_names);
				if std::fs::symlink_metadata(dir.join(name)).is_err() {
					let made = if rng.chance(1, 2) {
						std::os::unix::fs::symlink("does-not-exist-anywhere", dir.join(name)).is_ok()
					} else {
						std::process::Command::new("mkfifo").arg(dir.join(name)).status().map_or(false, |s| s.success())
					};
					if made {
						desc.push(format!("{lvl}:not-a-file-nor-dir:{name}"));
						rep.count("decoys_dangling_link_or_fifo_named_like_a_marker", 1);
					}
				}
			}
			// decoys that are not markers: an unrelated file, and names that differ from a marker by letter case only
			if rng.chance(1, 3) {
				std::fs::write(dir.join("README"), "x").ok();
			}
			if rng.chance(1, 4) {
				let (name, node) = *rng.pick(&all_names);
				let variant = if rng.chance(1, 2) { name.to_lowercase() } else { name.to_uppercase() };
				if variant != name && !all_names.iter().any(|(n, _)| *n == variant) && !dir.join(&variant).exists() {
					place(dir, &variant, node);
					desc.push(format!("{lvl}:decoy:{variant}"));
				}
			}
		}
		let start = rng.usize(chain.len());
		// the given path need not be a directory, nor exist: a file, or up to three missing trailing components
		let variant = rng.below(8);
		let start_path = match variant {
			0 => {
				let f = chain[start].join("some-file.rs");
				std::fs::write(&f, "x").ok();
				f
			}
			1 => chain[start].join("missing.rs"),
			2 => chain[start].join("gen").join("out.rs"),
			3 => chain[start].join("a").join("b").join("c.rs"),
			_ => chain[start].clone(),
		};
		if variant < 4 {
			rep.count(["start_is_a_file", "start_missing_1", "start_missing_2", "start_missing_3"][variant as usize], 1);
		}
		let h = {
			let mut f = Fnv::default();
			f.u64(start as u64).u64(depth as u64).u64(variant.min(4));
			for d in &desc {
				f.str(d);
			}
			f.finish()
		};
		rep.eval();
		if !desc.is_empty() {
			rep.nontrivial(h);
		}
		let label = format!("chain depth={depth} start={start} start-variant={} markers={desc:?}", variant.min(4));
		check_dir(rep, &start_path, &root, &label).await;
		if it < 2 {
			rep.sample(json!({"chain": label}));
		}
		std::fs::remove_dir_all(&root).ok();
	}
	std::fs::remove_dir_all(&base).ok();
}

/// Markers in the filesystem root itself: the process confines itself to a scratch tree, whose top then *is* `/`.
pub async fn root_phase(args: &ShardArgs, rep: &mut Report) {
	let jail = args.scratch.join("c20-jail");
	std::fs::create_dir_all(&jail).unwrap();
	if let Err(e) = std::os::unix::fs::chroot(&jail).and_then(|()| std::env::set_current_dir("/")) {
		rep.note(&format!("filesystem-root cases not run: chroot is not permitted here ({e})"));
		return;
	}
	let mut rng = args.rng().fork(777);
	let all_names: Vec<(&str, Node)> = ORIGIN_MARKERS.to_vec();
	let n = if args.thorough() { 400 } else { 60 };
	for it in 0..n {
		// wipe the root
		for e in std::fs::read_dir("/").unwrap().flatten() {
			let p = e.path();
			if p.is_dir() && !p.is_symlink() {
				std::fs::remove_dir_all(&p).ok();
			} else {
				std::fs::remove_file(&p).ok();
			}
		}
		let depth = rng.usize(4);
		let mut chain = vec![PathBuf::from("/")];
		for k in 0..depth {
			let last = chain.last().unwrap().clone();
			chain.push(last.join(format!("d{k}")));
		}
		std::fs::create_dir_all(chain.last().unwrap()).unwrap();
		let mut desc = Vec::new();
		for (lvl, dir) in chain.iter().enumerate() {
			// the root is marked in three cases out of four
			let nmark = if lvl == 0 { [1, 1, 2, 0][rng.usize(4)] } else { [0, 0, 1, 2][rng.usize(4)] };
			for _ in 0..nmark {
				let (name, node) = *rng.pick(&all_names);
				let actual = if rng.chance(1, 5) { if node == File { Dir } else { File } } else { node };
				if dir.join(name).exists() {
					continue;
				}
				place(dir, name, actual);
				desc.push(format!("{lvl}:{name}:{actual:?}"));
			}
		}
		let start = rng.usize(chain.len());
		rep.eval();
		rep.count("filesystem_root_cases", 1);
		if !desc.is_empty() {
			let mut f = Fnv::default();
			f.str("fsroot").u64(start as u64).u64(depth as u64);
			for d in &desc {
				f.str(d);
			}
			rep.nontrivial(f.finish());
		}
		let label = format!("filesystem root: depth={depth} start={start} markers={desc:?}");
		check_dir(rep, &chain[start], Path::new("/"), &label).await;
		if it == 0 {
			rep.sample(json!({"chain": label}));
		}
	}
}

fn place(dir: &Path, name: &str, node: Node) {
	match node {
		File => std::fs::write(dir.join(name), "x").unwrap(),
		Dir => std::fs::create_dir_all(dir.join(name)).unwrap(),
	}
}

async fn check_dir(rep: &mut Report, start: &Path, _sandbox: &Path, label: &str) {
	let got: HashSet<PathBuf> = project_origins::origins(start).await;
	// expected: every member of the ancestor chain of `start` (inclusive) that satisfies the rule
	let mut expected = HashSet::new();
	let mut chain = Vec::new();
	let mut cur = Some(start);
	while let Some(c) = cur {
		chain.push(c.to_path_buf());
		if is_origin_by_rule(c) {
			expected.insert(c.to_path_buf());
		}
		cur = c.parent();
	}
	rep.count("chain_dirs_judged", chain.len() as u64);
	for g in &got {
		if !chain.contains(g) {
			rep.violation(
				"C20/origins/outside-chain",
				&format!("origins({}) returned {} which is not the path or an ancestor", start.display(), g.display()),
				json!({"case": label}),
			);
		}
	}
	for missing in expected.difference(&got) {
		let rel = missing.file_name().map(|s| s.to_string_lossy().to_string()).unwrap_or_default();
		rep.violation(
			&format!("C20/origins/missing/{}", marker_sig(missing)),
			&format!("origins({}) omits marked directory {} ({rel})", start.display(), missing.display()),
			json!({"case": label, "markers": markers_in(missing)}),
		);
	}
	for extra in got.difference(&expected) {
		if chain.contains(extra) {
			rep.violation(
				"C20/origins/unmarked",
				&format!("origins({}) returned unmarked directory {}", start.display(), extra.display()),
				json!({"case": label, "entries": list_dir(extra)}),
			);
		}
	}
	rep.count("origins_found", got.len() as u64);

	// types for every chain member inside the sandbox (cheap) — compare as sets of names
	for dir in chain.iter().take(7) {
		let got: BTreeSet<String> = project_origins::types(dir)
			.await
			.into_iter()
			.map(|t| format!("{t:?}"))
			.collect();
		let want = types_by_rule(dir);
		if got != want {
			let miss: Vec<_> = want.difference(&got).cloned().collect();
			let extra: Vec<_> = got.difference(&want).cloned().collect();
			rep.violation(
				&format!("C20/types/missing={miss:?}/extra={extra:?}"),
				&format!("types({}) = {got:?}, markers present imply {want:?}", dir.display()),
				json!({"case": label, "entries": list_dir(dir)}),
			);
		}
		rep.count("types_judged", 1);
		if !want.is_empty() {
			rep.count("types_nonempty", 1);
		}
	}
}

fn markers_in(dir: &Path) -> Vec<String> {
	ORIGIN_MARKERS
		.iter()
		.filter(|(n, t)| node_of(&dir.join(n)) == Some(*t))
		.map(|(n, t)| format!("{n}:{t:?}"))
		.collect()
}

fn marker_sig(dir: &Path) -> String {
	let m = markers_in(dir);
	if m.len() == 1 {
		m[0].clone()
	} else {
		format!("{}-markers", m.len())
	}
}

fn list_dir(dir: &Path) -> Vec<String> {
	let mut v: Vec<String> = std::fs::read_dir(dir)
		.map(|rd| {
			rd.flatten()
				.map(|e| e.file_name().to_string_lossy().to_string())
				.collect()
		})
		.unwrap_or_default();
	v.sort();
	v.truncate(30);
	v
}
