//! C03 — ignore files apply only inside their directory; the nearest match wins.
//!
//! Implementation under test: `IgnoreFilter::{new, empty+add_file}` → `match_path`, `check_dir`,
//! and `IgnoreFilterer::check_event`. Oracle 1: reference evaluator written from the statement.
//! Oracle 2: real `git check-ignore`. A probe is judged only where the two oracles agree.
//! Metamorphic laws (no oracle): scoping (a file under D never changes verdicts outside D), file
//! list permutation, bulk vs incremental construction, repeated construction.

use std::{
	collections::BTreeMap,
	io::Write,
	panic::{catch_unwind, AssertUnwindSafe},
	path::{Path, PathBuf},
	process::{Command, Stdio},
};

use ignore::Match;
use ignore_files::{IgnoreFile, IgnoreFilter};
use vcommon::{json, Fnv, Report, Rng, ShardArgs, Value};
use watchexec::filter::Filterer;
use watchexec_events::{Event, FileType, Priority, Tag};
use watchexec_filterer_ignore::IgnoreFilterer;

// ------------------------------------------------------------------------------------------
// reference glob matcher for the pattern grammar

#[derive(Clone, Debug)]
pub struct Pat {
	pub neg: bool,
	pub dir_only: bool,
	pub segs: Vec<String>, // "**" or a segment with optional '*'
}

pub fn parse_pat(line: &str) -> Option<Pat> {
	let mut s = line;
	// git: a line starting with '#' is a comment, trailing spaces are dropped unless the last one is quoted with a
	// backslash, leading blanks belong to the pattern; "\#", "\!" and "\ " stand for the literal character
	if s.starts_with('#') {
		return None;
	}
	if !s.ends_with("\\ ") {
		s = s.trim_end_matches(' ');
	}
	if s.is_empty() {
		return None;
	}
	let neg = s.starts_with('!');
	if neg {
		s = &s[1..];
	}
	if s.starts_with("\\#") || s.starts_with("\\!") {
		s = &s[1..];
	}
	let dir_only = s.ends_with('/');
	if dir_only {
		s = &s[..s.len() - 1];
	}
	let anchored = s.contains('/');
	let s = s.strip_prefix('/').unwrap_or(s);
	if s.is_empty() {
		return None;
	}
	let mut segs: Vec<String> = s.split('/').map(|x| x.replace("\\ ", " ")).collect();
	if !anchored {
		segs.insert(0, "**".into());
	}
	Some(Pat { neg, dir_only, segs })
}

fn seg_match(pat: &str, name: &str) -> bool {
	// only '*' as metacharacter (any run of non-slash chars, including empty)
	fn rec(p: &[u8], n: &[u8]) -> bool {
		match p.first() {
			None => n.is_empty(),
			Some(b'*') => (0..=n.len()).any(|k| rec(&p[1..], &n[k..])),
			Some(c) => n.first() == Some(c) && rec(&p[1..], &n[1..]),
		}
	}
	rec(pat.as_bytes(), name.as_bytes())
}

fn segs_match(segs: &[String], comps: &[&str]) -> bool {
	match segs.first() {
		None => comps.is_empty(),
		Some(s) if s == "**" => {
			if segs.len() == 1 {
				// trailing /**: everything inside, not the thing itself
				!comps.is_empty()
			} else {
				(0..=comps.len()).any(|k| segs_match(&segs[1..], &comps[k..]))
			}
		}
		Some(s) => !comps.is_empty() && seg_match(s, comps[0]) && segs_match(&segs[1..], &comps[1..]),
	}
}

impl Pat {
	pub fn matches(&self, rel: &[&str], is_dir: bool) -> bool {
		if self.dir_only && !is_dir {
			return false;
		}
		segs_match(&self.segs, rel)
	}
}

#[derive(Clone, Copy, Debug, PartialEq, Eq)]
pub enum Verdict {
	None,
	Ignore,
	Allow,
}

/// git-style evaluation of one directory's pattern list (listed order, last match wins) against
/// the path and then its ancestors below that directory.
pub fn eval_dir(pats: &[Pat], rel: &[&str], is_dir: bool) -> Verdict {
	let mut n = rel.len();
	let mut dir = is_dir;
	while n > 0 {
		for p in pats.iter().rev() {
			if p.matches(&rel[..n], dir) {
				return if p.neg { Verdict::Allow } else { Verdict::Ignore };
			}
		}
		n -= 1;
		dir = true;
	}
	Verdict::None
}

// ------------------------------------------------------------------------------------------
// scenario

#[derive(Clone, Debug)]
pub struct IgEntry {
	pub dir: Option<String>, // relative dir inside the origin ("" = origin); None = global
	pub lines: Vec<String>,
}

#[derive(Clone, Debug)]
pub struct Scenario {
	pub dirs: Vec<String>,  // relative
	pub files: Vec<String>, // relative
	pub entries: Vec<IgEntry>,
}

const DIRNAMES: &[&str] = &["a", "ab", "abc", "test", "tests", "t", "x.d", "src", "src2"];
const FILENAMES: &[&str] = &["keep.tmp", "x.tmp", "f.rs", "a", "ab", "x.d", "test", "n.txt", ".hid"];

fn gen_line(rng: &mut Rng) -> String {
	let names: Vec<&str> = DIRNAMES.iter().chain(FILENAMES.iter()).copied().collect();
	let exts = ["*.tmp", "*.rs", "*.d", "*.txt", "x.*", "t*"];
	let body = match rng.below(9) {
		0 | 1 => (*rng.pick(&names)).to_string(),
		2 => (*rng.pick(&exts)).to_string(),
		3 => format!("{}/", rng.pick(DIRNAMES)),
		4 => format!("/{}", rng.pick(&names)),
		5 => format!("{}/{}", rng.pick(DIRNAMES), rng.pick(&names)),
		6 => format!("**/{}", rng.pick(&names)),
		7 => format!("{}/**", rng.pick(DIRNAMES)),
		_ => format!("{}/{}", rng.pick(DIRNAMES), rng.pick(&exts)),
	};
	if rng.chance(1, 4) {
		format!("!{body}")
	} else {
		body
	}
}

/// Names and lines where blanks and the comment / negation characters are part of the text (one scenario in five).
const ODD_FILENAMES: &[&str] = &[" lead.txt", "lead.txt", "sp ace.txt", "trail ", "trail", "#hash", "!bang", "x.tmp"];
const ODD_LINES: &[&str] = &[
	" lead.txt", "lead.txt", "  lead.txt", "sp ace.txt", "sp", "ace.txt", "trail\\ ", "trail ", "trail   ", "\\#hash", "\\!bang", "x.tmp  ", "# x.tmp", " # not a comment",
	"! lead.txt", "!trail\\ ", "/ lead.txt", "*.txt ", " *.txt",
];

pub fn gen_scenario(rng: &mut Rng) -> Scenario {
	let mut dirs: Vec<String> = vec![];
	// depth <= 3, prefix-related siblings favoured
	let top = 2 + rng.usize(4);
	for _ in 0..top {
		let d = (*rng.pick(DIRNAMES)).to_string();
		if !dirs.contains(&d) {
			dirs.push(d);
		}
	}
	if rng.chance(2, 3) {
		for pair in [["test", "tests"], ["a", "ab"], ["src", "src2"], ["ab", "abc"]] {
			if rng.chance(1, 2) {
				for d in pair {
					if !dirs.contains(&d.to_string()) {
						dirs.push(d.to_string());
					}
				}
			}
		}
	}
	let mut lvl = dirs.clone();
	for _depth in 0..2 {
		let mut next = vec![];
		for d in &lvl {
			for _ in 0..rng.usize(3) {
				let c = format!("{d}/{}", rng.pick(DIRNAMES));
				if !dirs.contains(&c) {
					dirs.push(c.clone());
					next.push(c);
				}
			}
		}
		lvl = next;
	}
	let mut files = vec![];
	let mut all_dirs = vec![String::new()];
	all_dirs.extend(dirs.iter().cloned());
	for d in &all_dirs {
		for _ in 0..(1 + rng.usize(3)) {
			let f = if d.is_empty() {
				(*rng.pick(FILENAMES)).to_string()
			} else {
				format!("{d}/{}", rng.pick(FILENAMES))
			};
			// a name cannot be both a file and a dir
			if !files.contains(&f) && !dirs.contains(&f) {
				files.push(f);
			}
		}
	}
	let mut entries = vec![];
	let n_entries = 1 + rng.usize(5);
	for _ in 0..n_entries {
		let dir = match rng.below(10) {
			0 => None,
			1 | 2 => Some(String::new()),
			_ => Some(rng.pick(&dirs).clone()),
		};
		let mut lines: Vec<String> = (0..(1 + rng.usize(4))).map(|_| gen_line(rng)).collect();
		match rng.below(8) {
			// an ignore file without any pattern (comments / blank lines only) must be transparent
			0 => lines = vec!["# nothing to ignore here".into(), String::new()],
			1 => lines.insert(0, "# a comment".into()),
			2 => lines.push(String::new()),
			_ => {}
		}
		entries.push(IgEntry { dir, lines });
	}
	if rng.chance(1, 5) {
		for _ in 0..(2 + rng.usize(4)) {
			let d = if rng.chance(1, 3) { String::new() } else { rng.pick(&dirs).clone() };
			let n = *rng.pick(ODD_FILENAMES);
			let f = if d.is_empty() { n.to_string() } else { format!("{d}/{n}") };
			if !files.contains(&f) && !dirs.contains(&f) {
				files.push(f);
			}
		}
		for _ in 0..(1 + rng.usize(3)) {
			let dir = match rng.below(6) {
				0 => None,
				1 | 2 => Some(String::new()),
				_ => Some(rng.pick(&dirs).clone()),
			};
			let mut lines: Vec<String> = (0..(1 + rng.usize(4))).map(|_| (*rng.pick(ODD_LINES)).to_string()).collect();
			if rng.chance(1, 2) {
				lines.push(gen_line(rng));
			}
			entries.push(IgEntry { dir, lines });
		}
	}
	Scenario { dirs, files, entries }
}

pub struct Probe {
	pub rel: String, // relative to origin; for outside probes: starts with "../"
	pub is_dir: bool,
}

fn probes(sc: &Scenario, rng: &mut Rng) -> Vec<Probe> {
	let mut v: Vec<Probe> = sc.dirs.iter().map(|d| Probe { rel: d.clone(), is_dir: true }).collect();
	v.extend(sc.files.iter().map(|f| Probe { rel: f.clone(), is_dir: false }));
	// non-existent paths
	for _ in 0..6 {
		let base = if rng.chance(1, 4) { String::new() } else { rng.pick(&sc.dirs).clone() };
		let name = *rng.pick(&["keep.tmp", "zz.rs", "nope", "x.d", "tests", "test"]);
		let rel = if base.is_empty() { name.to_string() } else { format!("{base}/{name}") };
		if !sc.dirs.contains(&rel) && !sc.files.contains(&rel) {
			v.push(Probe { rel, is_dir: rng.chance(1, 3) });
		}
	}
	// outside the origin
	for name in ["../outside/keep.tmp", "../outside/test/x.tmp", "../o2/f.rs", "../outside"] {
		v.push(Probe { rel: name.to_string(), is_dir: name == "../outside" });
	}
	v
}

// ------------------------------------------------------------------------------------------
// oracle 1

pub fn oracle1(sc: &Scenario, rel: &str, is_dir: bool) -> Verdict {
	let comps: Vec<&str> = rel.split('/').collect();
	// ancestor directories of the probe, nearest first: for a/b/c -> "a/b", "a", ""
	let mut anc: Vec<String> = vec![];
	for n in (0..comps.len()).rev() {
		anc.push(comps[..n].join("/"));
	}
	for d in &anc {
		let pats: Vec<Pat> = sc
			.entries
			.iter()
			.filter(|e| e.dir.as_deref() == Some(d.as_str()))
			.flat_map(|e| e.lines.iter().filter_map(|l| parse_pat(l)))
			.collect();
		if pats.is_empty() {
			continue;
		}
		let skip = if d.is_empty() { 0 } else { d.split('/').count() };
		match eval_dir(&pats, &comps[skip..], is_dir) {
			Verdict::None => {}
			v => return v,
		}
	}
	// global files last, relative to the origin
	let pats: Vec<Pat> = sc
		.entries
		.iter()
		.filter(|e| e.dir.is_none())
		.flat_map(|e| e.lines.iter().filter_map(|l| parse_pat(l)))
		.collect();
	eval_dir(&pats, &comps, is_dir)
}

// ------------------------------------------------------------------------------------------
// oracle 2: real git

fn git_oracle(root: &Path, sc: &Scenario, probes: &[&Probe]) -> Option<Vec<Verdict>> {
	let repo = root.join("gitrepo");
	std::fs::create_dir_all(&repo).ok()?;
	for d in &sc.dirs {
		std::fs::create_dir_all(repo.join(d)).ok()?;
	}
	for f in &sc.files {
		std::fs::write(repo.join(f), "x").ok()?;
	}
	let mut per_dir: BTreeMap<String, Vec<String>> = BTreeMap::new();
	let mut global: Vec<String> = vec![];
	for e in &sc.entries {
		match &e.dir {
			Some(d) => per_dir.entry(d.clone()).or_default().extend(e.lines.iter().cloned()),
			None => global.extend(e.lines.iter().cloned()),
		}
	}
	for (d, lines) in &per_dir {
		std::fs::write(repo.join(d).join(".gitignore"), lines.join("\n") + "\n").ok()?;
	}
	let excl = root.join("git-global-excludes");
	std::fs::write(&excl, global.join("\n") + "\n").ok()?;
	let git = |args: &[&str]| {
		let mut c = Command::new("git");
		c.current_dir(&repo)
			.env("GIT_CONFIG_GLOBAL", "/dev/null")
			.env("GIT_CONFIG_SYSTEM", "/dev/null")
			.env("GIT_CONFIG_NOSYSTEM", "1")
			.env("HOME", root)
			.env_remove("XDG_CONFIG_HOME")
			.env_remove("GIT_DIR")
			.args(args);
		c
	};
	let st = git(&["init", "-q", "."]).stdout(Stdio::null()).stderr(Stdio::null()).status().ok()?;
	if !st.success() {
		return None;
	}
	let excl_cfg = format!("core.excludesFile={}", excl.display());
	let mut child = git(&["-c", &excl_cfg, "check-ignore", "-v", "-n", "--no-index", "-z", "--stdin"])
		.stdin(Stdio::piped())
		.stdout(Stdio::piped())
		.stderr(Stdio::null())
		.spawn()
		.ok()?;
	{
		let mut stdin = child.stdin.take()?;
		for p in probes {
			let mut s = p.rel.clone();
			if p.is_dir {
				s.push('/');
			}
			stdin.write_all(s.as_bytes()).ok()?;
			stdin.write_all(b"\0").ok()?;
		}
	}
	let out = child.wait_with_output().ok()?;
	// -z output: <source> NUL <linenum> NUL <pattern> NUL <pathname> NUL
	let fields: Vec<&[u8]> = out.stdout.split(|b| *b == 0).collect();
	let mut res = vec![];
	let mut i = 0;
	while i + 3 < fields.len() {
		let pattern = String::from_utf8_lossy(fields[i + 2]).to_string();
		res.push(if pattern.is_empty() {
			Verdict::None
		} else if pattern.starts_with('!') {
			Verdict::Allow
		} else {
			Verdict::Ignore
		});
		i += 4;
	}
	std::fs::remove_dir_all(&repo).ok();
	if res.len() == probes.len() {
		Some(res)
	} else {
		None
	}
}

// ------------------------------------------------------------------------------------------
// implementation under test

pub struct Built {
	pub origin: PathBuf,
	pub files: Vec<IgnoreFile>,
}

/// Write the tree and one ignore file per entry (distinct names inside one directory).
pub fn materialise(root: &Path, sc: &Scenario) -> Built {
	let origin = root.join("o");
	std::fs::create_dir_all(&origin).unwrap();
	std::fs::create_dir_all(root.join("outside/test")).unwrap();
	for d in &sc.dirs {
		std::fs::create_dir_all(origin.join(d)).unwrap();
	}
	for f in &sc.files {
		std::fs::write(origin.join(f), "x").unwrap();
	}
	let gl = root.join("globals");
	std::fs::create_dir_all(&gl).unwrap();
	let mut files = vec![];
	for (i, e) in sc.entries.iter().enumerate() {
		let content = e.lines.join("\n") + "\n";
		match &e.dir {
			Some(d) => {
				let dir = if d.is_empty() { origin.clone() } else { origin.join(d) };
				let name = match i % 3 {
					0 => format!(".gitignore.{i}"),
					1 => format!(".ignore.{i}"),
					_ => format!(".hgignore.{i}"),
				};
				let path = dir.join(name);
				std::fs::write(&path, content).unwrap();
				files.push(IgnoreFile { path, applies_in: Some(dir), applies_to: None });
			}
			None => {
				let path = gl.join(format!("global.{i}"));
				std::fs::write(&path, content).unwrap();
				files.push(IgnoreFile { path, applies_in: None, applies_to: None });
			}
		}
	}
	Built { origin, files }
}

fn m2v(m: Match<&ignore::gitignore::Glob>) -> Verdict {
	match m {
		Match::None => Verdict::None,
		Match::Ignore(_) => Verdict::Ignore,
		Match::Whitelist(_) => Verdict::Allow,
	}
}

#[derive(Clone, Debug, PartialEq, Eq)]
pub struct ImplVerdict {
	pub matched: Verdict,
	pub event_pass: bool,
	pub dir_pass: Option<bool>,
}

pub fn impl_verdicts(filter: &IgnoreFilter, origin: &Path, probes: &[Probe]) -> Result<Vec<ImplVerdict>, String> {
	let filterer = IgnoreFilterer(filter.clone());
	let mut out = vec![];
	for p in probes {
		let abs = abs_of(origin, &p.rel);
		let r = catch_unwind(AssertUnwindSafe(|| {
			let matched = m2v(filter.match_path(&abs, p.is_dir));
			let ev = Event {
				tags: vec![Tag::Path {
					path: abs.clone(),
					file_type: Some(if p.is_dir { FileType::Dir } else { FileType::File }),
				}],
				metadata: Default::default(),
			};
			let event_pass = filterer.check_event(&ev, Priority::Normal).unwrap_or(true);
			let dir_pass = if p.is_dir { Some(filter.check_dir(&abs)) } else { None };
			ImplVerdict { matched, event_pass, dir_pass }
		}));
		match r {
			Ok(v) => out.push(v),
			Err(_) => return Err(format!("panic while matching {}", abs.display())),
		}
	}
	Ok(out)
}

fn abs_of(origin: &Path, rel: &str) -> PathBuf {
	if let Some(r) = rel.strip_prefix("../") {
		origin.parent().unwrap().join(r)
	} else {
		origin.join(rel)
	}
}

fn under(rel: &str, dir: &str) -> bool {
	// component-wise: is `rel` equal to or inside `dir`?
	dir.is_empty() && !rel.starts_with("../") || rel == dir || rel.starts_with(&format!("{dir}/"))
}

fn scenario_json(sc: &Scenario) -> Value {
	json!({
		"dirs": sc.dirs, "files": sc.files,
		"ignore_files": sc.entries.iter().map(|e| json!({"in": e.dir, "lines": e.lines})).collect::<Vec<_>>(),
	})
}

pub async fn build_bulk(b: &Built, files: &[IgnoreFile]) -> Result<IgnoreFilter, String> {
	IgnoreFilter::new(&b.origin, files).await.map_err(|e| e.to_string())
}

pub async fn build_incremental(b: &Built, files: &[IgnoreFile]) -> Result<IgnoreFilter, String> {
	let mut f = IgnoreFilter::new(&b.origin, &[]).await.map_err(|e| e.to_string())?;
	for file in files {
		f.add_file(file).await.map_err(|e| e.to_string())?;
	}
	Ok(f)
}

pub async fn build_from_empty(b: &Built, files: &[IgnoreFile]) -> Result<IgnoreFilter, String> {
	let mut f = IgnoreFilter::empty(&b.origin);
	for file in files {
		f.add_file(file).await.map_err(|e| e.to_string())?;
	}
	Ok(f)
}

/// The same lines fed through `add_globs` (the route manual patterns take), one call per ignore file, scoped to the
/// directory the file applies in.
pub async fn build_from_globs(b: &Built, files: &[IgnoreFile], from_empty: bool) -> Result<IgnoreFilter, String> {
	let mut f = if from_empty {
		IgnoreFilter::empty(&b.origin)
	} else {
		IgnoreFilter::new(&b.origin, &[]).await.map_err(|e| e.to_string())?
	};
	for file in files {
		let content = std::fs::read_to_string(&file.path).map_err(|e| e.to_string())?;
		let lines: Vec<&str> = content.lines().collect();
		f.add_globs(&lines, file.applies_in.as_ref()).map_err(|e| e.to_string())?;
	}
	Ok(f)
}

/// Bulk construction, `finish()`, then additions: they are documented to be ignored silently once the builders are
/// gone, so every verdict must stay what it was (in particular nothing that was loaded may be forgotten).
pub async fn build_finished_then_added(b: &Built, files: &[IgnoreFile]) -> Result<IgnoreFilter, String> {
	let mut f = IgnoreFilter::new(&b.origin, files).await.map_err(|e| e.to_string())?;
	f.finish();
	for file in files {
		f.add_globs(&["zz-verif-never-there"], file.applies_in.as_ref()).map_err(|e| e.to_string())?;
	}
	if let Some(file) = files.first() {
		f.add_file(file).await.map_err(|e| e.to_string())?;
	}
	f.add_globs(&["zz-verif-never-there-either"], None).map_err(|e| e.to_string())?;
	Ok(f)
}

pub async fn run(args: &ShardArgs, rep: &mut Report) {
	let mut rng = args.rng();
	let n = if args.thorough() { 1500 } else { 140 };
	let base = args.scratch.join("c03");
	let budget = vcommon::Budget::new(args.budget);
	for it in 0..n {
		if budget.exhausted() {
			rep.note("budget exhausted before all scenarios were run");
			break;
		}
		let sc = gen_scenario(&mut rng);
		let root = base.join(format!("s{it}"));
		std::fs::create_dir_all(&root).unwrap();
		let root = root.canonicalize().unwrap();
		one_scenario(rep, &mut rng, &sc, &root, it).await;
		std::fs::remove_dir_all(&root).ok();
	}
	std::fs::remove_dir_all(&base).ok();
}

async fn one_scenario(rep: &mut Report, rng: &mut Rng, sc: &Scenario, root: &Path, it: usize) {
	let built = materialise(root, sc);
	let probes = probes(sc, rng);
	let wit = |extra: Value| json!({"scenario": scenario_json(sc), "detail": extra});

	let filter = match build_bulk(&built, &built.files).await {
		Ok(f) => f,
		Err(e) => {
			rep.inconclusive("filter-construction-error");
			rep.note(format!("construction error: {e}"));
			return;
		}
	};
	let verdicts = match impl_verdicts(&filter, &built.origin, &probes) {
		Ok(v) => v,
		Err(e) => {
			rep.eval();
			rep.violation("C03/panic", &e, wit(json!({})));
			return;
		}
	};

	// --- several paths in one event: every path is judged by its own type tag ------------------
	// A directory-typed path followed by an untyped one: when each passes (is rejected) as an event of its own, the
	// two-path event passes (is rejected) as well.
	{
		let filterer = IgnoreFilterer(filter.clone());
		let single = |abs: &Path, ft: Option<FileType>| {
			let ev = Event { tags: vec![Tag::Path { path: abs.to_path_buf(), file_type: ft }], metadata: Default::default() };
			filterer.check_event(&ev, Priority::Normal).unwrap_or(true)
		};
		let dirs: Vec<&Probe> = probes.iter().filter(|p| p.is_dir).take(6).collect();
		let others: Vec<&Probe> = probes.iter().filter(|p| !p.is_dir).take(12).collect();
		for d in &dirs {
			let da = abs_of(&built.origin, &d.rel);
			let sd = single(&da, Some(FileType::Dir));
			for u in &others {
				let ua = abs_of(&built.origin, &u.rel);
				let su = single(&ua, None);
				if sd != su {
					continue;
				}
				let ev = Event {
					tags: vec![Tag::Path { path: da.clone(), file_type: Some(FileType::Dir) }, Tag::Path { path: ua.clone(), file_type: None }],
					metadata: Default::default(),
				};
				let both = filterer.check_event(&ev, Priority::Normal).unwrap_or(true);
				rep.count("two_path_events_judged", 1);
				if both != sd {
					rep.violation(
						"C03/event/verdict-depends-on-another-paths-type",
						&format!(
							"[{} (dir)] and [{} (untyped)] are each {} as events of their own, but the event naming both is {}",
							d.rel,
							u.rel,
							if sd { "passed" } else { "rejected" },
							if both { "passed" } else { "rejected" }
						),
						wit(json!({"dir_probe": d.rel, "untyped_probe": u.rel})),
					);
				}
			}
		}
	}

	// --- oracle comparison ----------------------------------------------------------------
	let in_origin: Vec<&Probe> = probes.iter().filter(|p| !p.rel.starts_with("../")).collect();
	let git = git_oracle(root, sc, &in_origin);
	if git.is_none() {
		rep.inconclusive("git-oracle-unavailable");
	}
	let mut gi = 0usize;
	let mut trace = Fnv::default();
	let mut nontrivial = false;
	for (p, v) in probes.iter().zip(verdicts.iter()) {
		rep.eval();
		let outside = p.rel.starts_with("../");
		if outside {
			// scoping clause: in-origin ignore files never touch it; with no global file it must pass
			if sc.entries.iter().all(|e| e.dir.is_some()) {
				rep.count("outside_probes_judged", 1);
				if !v.event_pass || v.dir_pass == Some(false) {
					rep.violation(
						"C03/outside-origin-affected",
						&format!("{} (outside the origin) is affected by in-origin ignore files: {v:?}", p.rel),
						wit(json!({"probe": p.rel})),
					);
				}
			}
			continue;
		}
		let g = git.as_ref().map(|g| g[gi]);
		gi += 1;
		// unspecified: a directory versus an ignore file stored in that very directory
		if p.is_dir && sc.entries.iter().any(|e| e.dir.as_deref() == Some(p.rel.as_str())) {
			rep.count("skipped_dir_vs_own_file", 1);
			continue;
		}
		let o1 = oracle1(sc, &p.rel, p.is_dir);
		let Some(g) = g else { continue };
		let o1_ignored = o1 == Verdict::Ignore;
		let g_ignored = g == Verdict::Ignore;
		if o1_ignored != g_ignored {
			rep.inconclusive("oracle-ambiguous");
			continue;
		}
		rep.count("probes_judged", 1);
		trace.str(if o1_ignored { "I" } else if o1 == Verdict::Allow { "A" } else { "-" });
		if o1 != Verdict::None {
			nontrivial = true;
		}
		let impl_ignored = !v.event_pass;
		if impl_ignored != o1_ignored {
			let kind = if o1_ignored { "not-ignored" } else { "wrongly-ignored" };
			let prefix_sibling = has_prefix_sibling(sc, &p.rel);
			rep.violation(
				&format!("C03/verdict/{kind}{}", if prefix_sibling { "/prefix-sibling" } else { "" }),
				&format!(
					"{} ({}) : implementation {}, git and the reference evaluator say {}",
					p.rel,
					if p.is_dir { "dir" } else { "file" },
					if impl_ignored { "ignores" } else { "passes" },
					if o1_ignored { "ignored" } else { "not ignored" }
				),
				wit(json!({"probe": p.rel, "is_dir": p.is_dir, "impl": format!("{v:?}"), "git": format!("{g:?}"), "reference": format!("{o1:?}")})),
			);
		}
		if let Some(dp) = v.dir_pass {
			if dp == o1_ignored {
				rep.violation(
					&format!("C03/check_dir/{}", if o1_ignored { "not-ignored" } else { "wrongly-ignored" }),
					&format!("check_dir({}) = {dp} but the directory is {}", p.rel, if o1_ignored { "ignored" } else { "not ignored" }),
					wit(json!({"probe": p.rel})),
				);
			}
		}
	}
	if nontrivial {
		rep.nontrivial(trace.finish());
	}
	if it < 2 {
		rep.sample(json!({"scenario": scenario_json(sc), "probes": probes.iter().zip(verdicts.iter()).take(12)
			.map(|(p, v)| json!({"path": p.rel, "dir": p.is_dir, "ignored": !v.event_pass})).collect::<Vec<_>>() }));
	}

	// --- metamorphic: scoping (with / without each in-tree file) -------------------------------
	for (i, e) in sc.entries.iter().enumerate() {
		let Some(d) = &e.dir else { continue };
		if d.is_empty() {
			continue; // applies everywhere inside the origin
		}
		let without: Vec<IgnoreFile> = built.files.iter().enumerate().filter(|(j, _)| *j != i).map(|(_, f)| f.clone()).collect();
		let Ok(f2) = build_bulk(&built, &without).await else { continue };
		let Ok(v2) = impl_verdicts(&f2, &built.origin, &probes) else {
			rep.violation("C03/panic", "panic while matching (file removed)", wit(json!({"removed": i})));
			continue;
		};
		for ((p, a), b) in probes.iter().zip(verdicts.iter()).zip(v2.iter()) {
			if under(&p.rel, d) {
				continue;
			}
			rep.count("scoping_pairs_judged", 1);
			if a.event_pass != b.event_pass || a.dir_pass != b.dir_pass {
				let sib = has_prefix_relation(&p.rel, d);
				rep.violation(
					&format!("C03/scoping/{}", if sib { "prefix-sibling" } else { "unrelated" }),
					&format!(
						"ignore file in {d}/ ({:?}) changes the verdict of {} which is outside {d}/: {:?} with, {:?} without",
						e.lines, p.rel, a, b
					),
					wit(json!({"file_dir": d, "lines": e.lines, "probe": p.rel})),
				);
			}
		}
	}

	// --- metamorphic: permutation across directories (same-dir order kept), bulk vs incremental, repeat
	let mut order: Vec<usize> = (0..built.files.len()).collect();
	rng.shuffle(&mut order);
	// restore relative order of entries sharing a directory
	let mut by_dir: BTreeMap<Option<String>, Vec<usize>> = BTreeMap::new();
	for (i, e) in sc.entries.iter().enumerate() {
		by_dir.entry(e.dir.clone()).or_default().push(i);
	}
	let mut cursor: BTreeMap<Option<String>, usize> = BTreeMap::new();
	let permuted: Vec<IgnoreFile> = order
		.iter()
		.map(|i| {
			let d = sc.entries[*i].dir.clone();
			let c = cursor.entry(d.clone()).or_default();
			let idx = by_dir[&d][*c];
			*c += 1;
			built.files[idx].clone()
		})
		.collect();
	let variants: Vec<(&str, Result<IgnoreFilter, String>)> = vec![
		("repeat", build_bulk(&built, &built.files).await),
		("permuted", build_bulk(&built, &permuted).await),
		("incremental", build_incremental(&built, &built.files).await),
		("incremental-permuted", build_incremental(&built, &permuted).await),
		("empty-incremental", build_from_empty(&built, &built.files).await),
		("globs", build_from_globs(&built, &built.files, false).await),
		("empty-globs-permuted", build_from_globs(&built, &permuted, true).await),
		("finished-then-added", build_finished_then_added(&built, &built.files).await),
	];
	for (name, f) in variants {
		let Ok(f) = f else {
			rep.inconclusive("variant-construction-error");
			continue;
		};
		let Ok(v2) = impl_verdicts(&f, &built.origin, &probes) else {
			rep.violation("C03/panic", &format!("panic while matching ({name})"), wit(json!({})));
			continue;
		};
		for ((p, a), b) in probes.iter().zip(verdicts.iter()).zip(v2.iter()) {
			rep.count("variant_pairs_judged", 1);
			if p.is_dir && sc.entries.iter().any(|e| e.dir.as_deref() == Some(p.rel.as_str())) {
				continue;
			}
			if a.event_pass != b.event_pass || a.dir_pass != b.dir_pass {
				rep.violation(
					&format!("C03/construction/{name}"),
					&format!("verdict of {} differs between bulk construction ({a:?}) and {name} ({b:?})", p.rel),
					wit(json!({"probe": p.rel, "order": order})),
				);
				break;
			}
		}
	}
}

fn has_prefix_relation(rel: &str, dir: &str) -> bool {
	// is some ancestor-or-self of rel a textual (but not component-wise) extension of `dir`?
	let comps: Vec<&str> = rel.split('/').collect();
	(1..=comps.len()).any(|n| {
		let anc = comps[..n].join("/");
		anc.starts_with(dir) && anc != dir && !anc.starts_with(&format!("{dir}/"))
	})
}

fn has_prefix_sibling(sc: &Scenario, rel: &str) -> bool {
	sc.entries.iter().filter_map(|e| e.dir.as_deref()).any(|d| !d.is_empty() && has_prefix_relation(rel, d))
}
