//! The no-process slice of the supervisor engine, small enough to run under **Miri**:
//!   cargo +nightly miri run -p mirijob -- C07|C10 --seed N --shard i/n --out FILE
//! One real `start_job` task on a 2-3-thread tokio runtime; 2-4 concurrent sender tasks; tickets awaited
//! by their own tasks, through clones, after an early poll, inline or not at all; the job ends through
//! delete / delete_now / its last handle being dropped. Nothing ever spawns a process (every `start`
//! runs into a wrapper whose `pre_spawn` fails, i.e. the documented "spawn failed" path), so the
//! interpreter can follow every instruction: its scheduler (seeded per shard, with a raised pre-emption
//! rate) and its weak-memory emulation produce interleavings of the ticket flags, the waker slots and the
//! three control queues that a native x86-64 run practically never shows, and it reports data races and
//! undefined behaviour by itself. The functional oracles are the C07 / C10 ones:
//!   * the job task ends without panicking and every waiter of every ticket (and clone) resolves (C07);
//!   * a ticket that resolved before the end was requested belongs to a control that has run (C07/C10);
//!   * per (sender, priority) markers run in send order, each at most once, and exactly once when the job
//!     ended through the normal-priority `delete` sent after them (C10);
//!   * everything enqueued while the task is held at a gate runs urgent first, then high, then normal (C10).
//! The same binary also runs natively (it is an ordinary multi-threaded stress then).

use std::{
	future::Future,
	collections::{BTreeMap, BTreeSet},
	io,
	sync::{
		atomic::{AtomicUsize, Ordering},
		Arc, Mutex,
	},
	time::Duration,
};

use process_wrap::tokio::{TokioCommandWrap, TokioCommandWrapper};
use vcommon::{json, Budget, Fnv, Report, Rng, ShardArgs, Value};
use watchexec_signals::Signal;
use watchexec_supervisor::{
	command::{Command, Program},
	job::{start_job, Control, Ticket},
};

#[derive(Clone, Debug)]
enum Op {
	Marker(u8),
	RunAsync(u8),
	ToWait,
	Noop(u8),
	Start,
	SetErr,
	UnsetErr,
	Yield,
}

#[derive(Clone, Copy, Debug, PartialEq)]
enum Topo {
	One,
	Clones(u8),
	PollThenClone,
	Dropped,
	Inline,
}

#[derive(Clone, Debug)]
struct Scn {
	senders: Vec<Vec<(Op, Topo)>>,
	gated: bool,
	end: u8, // 0 delete, 1 delete_now, 2 drop
	threads: usize,
}

fn gen(rng: &mut Rng, small: bool) -> Scn {
	let gated = rng.chance(1, 3);
	let ns = 2 + rng.usize(if small { 2 } else { 3 });
	let senders = (0..ns)
		.map(|_| {
			let n = if small { 3 + rng.usize(5) } else { 5 + rng.usize(20) };
			(0..n)
				.map(|_| {
					let op = match rng.below(16) {
						0..=4 => Op::Marker(0),
						5 | 6 => Op::Marker(1),
						7 | 8 => Op::Marker(2),
						9 => Op::RunAsync(rng.below(3) as u8),
						10 => Op::ToWait,
						11 => Op::Noop(rng.below(5) as u8),
						12 => Op::Start,
						13 => {
							if rng.chance(1, 2) {
								Op::SetErr
							} else {
								Op::UnsetErr
							}
						}
						_ => Op::Yield,
					};
					let topo = match rng.below(8) {
						0 | 1 | 2 => Topo::One,
						3 => Topo::Clones(2 + rng.below(2) as u8),
						4 => Topo::PollThenClone,
						5 => Topo::Dropped,
						_ => {
							if gated {
								Topo::One
							} else {
								Topo::Inline
							}
						}
					};
					(op, topo)
				})
				.collect()
		})
		.collect();
	Scn { senders, gated, end: rng.below(3) as u8, threads: 2 + rng.usize(2) }
}

fn scn_json(s: &Scn) -> Value {
	json!({"senders": s.senders.iter().map(|v| v.iter().map(|o| format!("{:?}/{:?}", o.0, o.1)).collect::<Vec<_>>()).collect::<Vec<_>>(),
		"gated": s.gated, "end": s.end, "threads": s.threads})
}

#[derive(Clone, Debug, PartialEq)]
enum Ev {
	Sent(usize),
	Ran(usize),
	Done(usize, usize),
	GateIn,
	GateOut,
	GateOpen,
	EndSent,
	TaskEnd(bool),
	ErrHandler,
	Hook,
	SpawnFail,
}

#[derive(Default, Debug)]
struct World {
	log: Mutex<Vec<Ev>>,
}

impl World {
	fn log(&self, e: Ev) {
		self.log.lock().unwrap().push(e);
	}
}

#[derive(Debug)]
struct FailWrap(Arc<World>);

impl TokioCommandWrapper for FailWrap {
	fn pre_spawn(&mut self, _command: &mut tokio::process::Command, _core: &TokioCommandWrap) -> io::Result<()> {
		self.0.log(Ev::SpawnFail);
		Err(io::Error::other("no process is ever spawned in this engine"))
	}
}

struct Sent {
	sender: usize,
	seq: usize,
	prio: u8,
	is_marker: bool,
	name: &'static str,
	waiters: usize,
	in_gate: bool,
}

struct Outcome {
	kicks: usize,
	violations: Vec<(String, String)>,
	log: Vec<Ev>,
	tickets: usize,
	waiters: usize,
	markers_run: usize,
	hash: u64,
}

fn run(s: &Scn) -> Outcome {
	let rt = tokio::runtime::Builder::new_multi_thread().worker_threads(s.threads).enable_time().build().expect("runtime");
	let out = rt.block_on(drive(s));
	rt.shutdown_timeout(Duration::from_millis(50));
	out
}

/// Generous: the interpreter is slow, and these only ever expire when something is genuinely stuck.
const STUCK: Duration = Duration::from_secs(if cfg!(miri) { 45 } else { 10 });

/// Wait for something that must happen. When nothing happened for `STUCK`, an unrelated task is spawned and the
/// wait continues for a while: a task that *had been woken* and was merely left unscheduled by the runtime (seen under
/// the interpreter: a wake-up from the non-worker thread reaching two parked workers) then runs, which is not a lost
/// wake-up of the code under test — a waiter that was never woken stays asleep whatever is spawned next to it.
async fn bounded<F: std::future::Future>(f: F, kicks: &AtomicUsize) -> Result<F::Output, ()> {
	tokio::pin!(f);
	if let Ok(x) = tokio::time::timeout(STUCK, &mut f).await {
		return Ok(x);
	}
	let dump = |tag: &str| {
		let m = tokio::runtime::Handle::current().metrics();
		eprintln!("[{tag}] alive={} inject={} workers={:?}", m.num_alive_tasks(), m.global_queue_depth(),
			(0..m.num_workers()).map(|i| (m.worker_park_count(i), m.worker_poll_count(i), m.worker_local_queue_depth(i), m.worker_steal_count(i))).collect::<Vec<_>>());
	};
	if std::env::var_os("MIRIJOB_DEBUG").is_some() {
		dump("stuck");
	}
	tokio::spawn(async {}).await.ok();
	match tokio::time::timeout(STUCK / 3, &mut f).await {
		Ok(x) => {
			kicks.fetch_add(1, Ordering::SeqCst);
			Ok(x)
		}
		Err(_) => Err(()),
	}
}

async fn drive(s: &Scn) -> Outcome {
	let world = Arc::new(World::default());
	let command = Arc::new(Command { program: Program::Exec { prog: "/bin/true".into(), args: vec![] }, options: Default::default() });
	let (job, task) = start_job(command);
	{
		let w = world.clone();
		job.set_spawn_hook(move |cmd, _ctx| {
			w.log(Ev::Hook);
			cmd.wrap(FailWrap(w.clone()));
		})
		.await;
	}
	let task_mon = {
		let w = world.clone();
		tokio::spawn(async move {
			let res = task.await;
			w.log(Ev::TaskEnd(res.is_err()));
			res.is_err()
		})
	};
	let next_id = Arc::new(AtomicUsize::new(0));
	let sent: Arc<Mutex<BTreeMap<usize, Sent>>> = Arc::new(Mutex::new(BTreeMap::new()));
	let waiter_handles: Arc<Mutex<Vec<(usize, usize, tokio::task::JoinHandle<()>)>>> = Arc::new(Mutex::new(vec![]));

	// the gate: a run_async that holds the job task until the driver opens it
	let gate = if s.gated {
		let (tx, rx) = tokio::sync::oneshot::channel::<()>();
		let w = world.clone();
		let t = job.run_async(move |_| {
			w.log(Ev::GateIn);
			let w = w.clone();
			Box::new(async move {
				let mut rx = rx;
				let mut polls = 0;
				futures::future::poll_fn(|cx| {
					polls += 1;
					let r = std::pin::Pin::new(&mut rx).poll(cx);
					if std::env::var_os("MIRIJOB_DEBUG").is_some() {
						eprintln!("gate poll #{polls}: ready={}", r.is_ready());
					}
					r
				})
				.await
				.ok();
				w.log(Ev::GateOut);
			})
		});
		// wait until the task is inside the gate
		let t0 = std::time::Instant::now();
		while !world.log.lock().unwrap().contains(&Ev::GateIn) && t0.elapsed() < STUCK {
			tokio::task::yield_now().await;
		}
		Some((tx, t))
	} else {
		None
	};

	let mut senders = vec![];
	for (si, ops) in s.senders.iter().enumerate() {
		let job = job.clone();
		let ops = ops.clone();
		let world = world.clone();
		let next_id = next_id.clone();
		let sent = sent.clone();
		let waiter_handles = waiter_handles.clone();
		let gated = s.gated;
		senders.push(tokio::spawn(async move {
			let mut seq = 0usize;
			for (op, topo) in ops {
				let nw = match topo {
					Topo::One | Topo::Inline => 1,
					Topo::Clones(k) => k as usize,
					Topo::PollThenClone => 2,
					Topo::Dropped => 0,
				};
				let mut record = |prio: u8, is_marker: bool, name: &'static str| {
					let id = next_id.fetch_add(1, Ordering::SeqCst);
					sent.lock().unwrap().insert(id, Sent { sender: si, seq, prio, is_marker, name, waiters: nw, in_gate: gated });
					seq += 1;
					id
				};
				let g = Duration::from_millis(5);
				let (id, ticket): (usize, Ticket) = match op {
					Op::Yield => {
						tokio::task::yield_now().await;
						continue;
					}
					Op::Marker(p) => {
						let id = record(p, true, "marker");
						let w = world.clone();
						(id, job.verif_send(Control::SyncFunc(Box::new(move |_| w.log(Ev::Ran(id)))), p))
					}
					Op::RunAsync(n) => {
						let id = record(0, true, "run_async");
						let w = world.clone();
						(
							id,
							job.run_async(move |_| {
								Box::new(async move {
									for _ in 0..n {
										tokio::task::yield_now().await;
									}
									// the closure's future is part of the control: it has run when this is logged
									w.log(Ev::Ran(id));
								})
							}),
						)
					}
					Op::ToWait => (record(1, false, "to_wait"), job.to_wait()),
					Op::Noop(0) => (record(0, false, "stop"), job.stop()),
					Op::Noop(1) => (record(0, false, "signal"), job.signal(Signal::User1)),
					Op::Noop(2) => (record(0, false, "try_restart"), job.try_restart()),
					Op::Noop(3) => (record(0, false, "stop_with_signal"), job.stop_with_signal(Signal::Terminate, g)),
					Op::Noop(_) => (record(0, false, "try_restart_with_signal"), job.try_restart_with_signal(Signal::Terminate, g)),
					Op::Start => (record(0, false, "start"), job.start()),
					Op::SetErr => {
						let w = world.clone();
						(record(0, false, "set_error_handler"), job.set_error_handler(move |_| w.log(Ev::ErrHandler)))
					}
					Op::UnsetErr => (record(0, false, "unset_error_handler"), job.unset_error_handler()),
				};
				world.log(Ev::Sent(id));
				let spawn_waiter = |t: Ticket, wi: usize| {
					let world = world.clone();
					let h = tokio::spawn(async move {
						t.await;
						world.log(Ev::Done(id, wi));
					});
					waiter_handles.lock().unwrap().push((id, wi, h));
				};
				match topo {
					Topo::Dropped => drop(ticket),
					Topo::Inline => {
						ticket.await;
						world.log(Ev::Done(id, 0));
					}
					Topo::One => spawn_waiter(ticket, 0),
					Topo::Clones(k) => {
						for wi in 0..k as usize {
							spawn_waiter(ticket.clone(), wi);
						}
						drop(ticket);
					}
					Topo::PollThenClone => {
						let mut t = ticket;
						// one early poll registers this ticket's waker slots; the clone must get its own
						let early = futures::poll!(&mut t);
						let c = t.clone();
						if early.is_ready() {
							world.log(Ev::Done(id, 0));
							spawn_waiter(c, 1);
						} else {
							spawn_waiter(c, 1);
							spawn_waiter(t, 0);
						}
					}
				}
			}
		}));
	}
	let kicks = AtomicUsize::new(0);
	let mut stuck_senders = 0;
	for h in senders {
		if bounded(h, &kicks).await.is_err() {
			stuck_senders += 1;
		}
	}
	let gate_ticket = gate.map(|(tx, t)| {
		world.log(Ev::GateOpen);
		let r = tx.send(());
		if std::env::var_os("MIRIJOB_DEBUG").is_some() {
			eprintln!("gate opened: send ok={}", r.is_ok());
		}
		t
	});
	// a few turns for the queues to drain, then end the job
	for _ in 0..(if cfg!(miri) { 8 } else { 200 }) {
		tokio::task::yield_now().await;
	}
	world.log(Ev::EndSent);
	let end_ticket = match s.end {
		0 => Some(job.delete()),
		1 => Some(job.delete_now()),
		_ => None,
	};
	let mut v: Vec<(String, String)> = vec![];
	if let Some(t) = end_ticket {
		// the handle is kept until the delete has been processed: dropping the last handle is an end of its own
		if bounded(t, &kicks).await.is_err() {
			v.push(("C07/end/delete-ticket-never-resolves(interp)".into(), "the ticket of delete / delete_now did not resolve".into()));
		}
	}
	drop(job);
	let ended = bounded(task_mon, &kicks).await;
	if let Some(t) = gate_ticket {
		if bounded(t, &kicks).await.is_err() {
			v.push(("C07/end/ticket-outlives-job(interp)/gate".into(), "the gate's own ticket did not resolve".into()));
		}
	}
	// every waiter must finish now that the job is gone
	let handles = std::mem::take(&mut *waiter_handles.lock().unwrap());
	let nwaiters = handles.len();
	let mut unresolved: Vec<(usize, usize)> = vec![];
	let mut given_up = false;
	for (id, wi, h) in handles {
		// once one waiter has been given up on, the others get a short wait only (they had the same time already)
		let r = if given_up { tokio::time::timeout(Duration::from_millis(200), h).await.map_err(|_| ()) } else { bounded(h, &kicks).await };
		if r.is_err() {
			given_up = true;
			unresolved.push((id, wi));
		}
	}

	// ---- oracles -------------------------------------------------------------------------------------
	let log = world.log.lock().unwrap().clone();
	let sent = sent.lock().unwrap();
	if stuck_senders > 0 {
		v.push(("C07/ticket/inline-await-never-returns(interp)".into(), format!("{stuck_senders} sender task(s) never got past an awaited ticket")));
	}
	match ended {
		Ok(Ok(true)) => v.push(("C07/end/task-panicked(interp)".into(), "the job task panicked".into())),
		Err(_) => v.push(("C07/end/task-never-ends(interp)".into(), "the job task did not end after delete / drop".into())),
		_ => {}
	}
	for (id, wi) in &unresolved {
		let sx = &sent[id];
		v.push((
			format!("C07/end/ticket-outlives-job(interp)/{}", sx.name),
			format!("waiter {wi} of ticket #{id} ({}, sender {}, seq {}, {} waiters) never woke although the job ended", sx.name, sx.sender, sx.seq, sx.waiters),
		));
	}
	let pos = |e: &Ev| log.iter().position(|x| x == e);
	let end_at = pos(&Ev::EndSent).unwrap_or(usize::MAX);
	let mut ran: BTreeMap<usize, usize> = BTreeMap::new();
	let mut last: BTreeMap<(usize, u8), (usize, usize)> = BTreeMap::new();
	let mut ran_pos: BTreeMap<usize, usize> = BTreeMap::new();
	for (i, e) in log.iter().enumerate() {
		if let Ev::Ran(id) = e {
			*ran.entry(*id).or_default() += 1;
			ran_pos.entry(*id).or_insert(i);
			let sx = &sent[id];
			if sx.name == "marker" {
				if let Some((pseq, pid)) = last.get(&(sx.sender, sx.prio)) {
					if *pseq > sx.seq {
						v.push((
							format!("C10/order/fifo-violated(interp)/prio{}", sx.prio),
							format!("sender {} sent #{id} (seq {}) before #{pid} (seq {pseq}) at the same priority, but it ran after it", sx.sender, sx.seq),
						));
					}
				}
				last.insert((sx.sender, sx.prio), (sx.seq, *id));
			}
		}
	}
	for (id, n) in &ran {
		if *n > 1 {
			v.push(("C10/order/marker-ran-twice(interp)".into(), format!("control #{id} ran {n} times")));
		}
	}
	// resolved before the end was requested => the control has run (markers and run_async are observable)
	for (i, e) in log.iter().enumerate() {
		if let Ev::Done(id, wi) = e {
			let sx = &sent[id];
			if sx.is_marker && i < end_at && ran_pos.get(id).map_or(true, |r| *r > i) {
				v.push((
					format!("C07/ticket/resolved-before-control-ran(interp)/{}", sx.name),
					format!("waiter {wi} of #{id} ({}) resolved before the control ran and before the end of the job was requested", sx.name),
				));
			}
		}
	}
	// delete is a normal-priority control sent after everything else: all that was sent before it runs first
	if s.end == 0 && !matches!(ended, Ok(Ok(true)) | Err(_)) {
		for (id, sx) in sent.iter() {
			if sx.is_marker && !ran.contains_key(id) {
				v.push((
					format!("C10/order/not-run-before-delete(interp)/{}", sx.name),
					format!("#{id} ({}, priority {}) was sent before the normal-priority delete but never ran", sx.name, sx.prio),
				));
			}
		}
	}
	// everything enqueued while the task sat in the gate: urgent, then high, then normal
	if s.gated {
		let open = pos(&Ev::GateOpen).unwrap_or(usize::MAX);
		let mut lowest_seen: Option<(u8, usize)> = None;
		for (i, e) in log.iter().enumerate() {
			if let Ev::Ran(id) = e {
				let sx = &sent[id];
				if !sx.in_gate || sx.name != "marker" {
					continue;
				}
				if i < open {
					v.push(("C10/order/ran-while-gated(interp)".into(), format!("marker #{id} ran while the job task was held inside an earlier control")));
				}
				if let Some((p, pid)) = lowest_seen {
					if sx.prio > p {
						v.push((
							format!("C10/order/priority-inverted(interp)/{}-before-{}", p, sx.prio),
							format!("marker #{pid} (priority {p}) ran before #{id} (priority {}) although both were pending when the task became free", sx.prio),
						));
					}
				}
				if lowest_seen.map_or(true, |(p, _)| sx.prio < p) {
					lowest_seen = Some((sx.prio, *id));
				}
			}
		}
	}
	let mut f = Fnv::default();
	for e in &log {
		f.str(match e {
			Ev::Sent(_) => "s",
			Ev::Ran(_) => "r",
			Ev::Done(..) => "d",
			Ev::GateIn => "G",
			Ev::GateOut => "g",
			Ev::GateOpen => "O",
			Ev::EndSent => "E",
			Ev::TaskEnd(_) => "T",
			Ev::ErrHandler => "e",
			Ev::Hook => "h",
			Ev::SpawnFail => "F",
		});
	}
	Outcome { kicks: kicks.load(Ordering::SeqCst), violations: v, tickets: sent.len(), waiters: nwaiters, markers_run: ran.len(), hash: f.finish(), log }
}

fn main() {
	let args = ShardArgs::parse();
	let mut rep = Report::new();
	if args.prop == "WARMUP" {
		return;
	}
	if args.prop != "C07" && args.prop != "C10" {
		std::process::exit(2);
	}
	let budget = Budget::new(args.budget);
	let mut rng = args.rng().fork(0x6d69_7269 ^ args.shard as u64);
	let quota: u64 = args.extra.get("quota").and_then(|s| s.parse().ok()).unwrap_or(if cfg!(miri) { 40 } else { 3000 });
	let mut n = 0u64;
	let mut seen_orders: BTreeSet<u64> = BTreeSet::new();
	while n < quota && !budget.exhausted() {
		let scn = gen(&mut rng, cfg!(miri));
		let t_scn = std::time::Instant::now();
		if let Some(only) = args.extra.get("only").and_then(|s| s.parse::<u64>().ok()) {
			if n + 1 != only {
				n += 1;
				continue;
			}
		}
		let out = run(&scn);
		n += 1;
		if args.extra.contains_key("progress") {
			eprintln!("scenario {n}: {:.1}s, {} violations, gated={} end={}", t_scn.elapsed().as_secs_f64(), out.violations.len(), scn.gated, scn.end);
		}
		rep.eval();
		rep.count("interp_scenarios", 1);
		rep.count("interp_tickets", out.tickets as u64);
		rep.count("interp_waiter_tasks", out.waiters as u64);
		rep.count("interp_controls_observed_running", out.markers_run as u64);
		rep.count("interp_log_events", out.log.len() as u64);
		if scn.gated {
			rep.count("interp_gated_scenarios", 1);
		}
		if out.kicks > 0 {
			// everything did resolve, but only after an unrelated task was spawned: a woken task left unscheduled by the
			// runtime, not a lost wake-up
			rep.count("interp_scenarios_where_the_runtime_needed_an_unrelated_spawn_to_run_a_woken_task", 1);
		}
		rep.count(["interp_end_delete", "interp_end_delete_now", "interp_end_drop"][scn.end as usize], 1);
		if out.log.contains(&Ev::SpawnFail) {
			rep.count("interp_failed_spawn_paths", 1);
		}
		if seen_orders.insert(out.hash) {
			rep.count("interp_distinct_event_orders", 1);
		}
		rep.nontrivial(out.hash);
		for (sig, what) in out.violations {
			if sig.starts_with(&format!("{}/", args.prop)) {
				rep.violation(&sig, &what, json!({"scenario": scn_json(&scn), "log": out.log.iter().take(80).map(|e| format!("{e:?}")).collect::<Vec<_>>()}));
			} else {
				rep.count(&format!("out_of_scope::{sig}"), 1);
			}
		}
		if n <= 2 {
			rep.sample(json!({"interp_scenario": scn_json(&scn), "log": out.log.iter().take(25).map(|e| format!("{e:?}")).collect::<Vec<_>>()}));
		}
	}
	rep.count("ran_under_miri", u64::from(cfg!(miri)));
	rep.write(&args);
}
