//! C08 (library part) — placeholder, filled in below.
use vcommon::{Report, Rng, ShardArgs};
pub fn run_one(_args: &ShardArgs, _rng: &mut Rng, _rep: &mut Report, _k: usize) {}
