//! C08 (library part): quitting from the action handler terminates the main task within the bound
//! and leaves no supervised process behind. Real `vchild` processes, real time.

use std::{
	collections::BTreeMap,
	path::{Path, PathBuf},
	sync::{Arc, Mutex},
	time::Duration,
};

use vcommon::{json, mono_ns, Fnv, Heartbeat, Report, Rng, ShardArgs, Value};
use watchexec::{
	command::{Command, Program, SpawnOptions},
	job::Job,
	Config, Watchexec,
};
use watchexec_events::{Event, Priority};
use watchexec_signals::Signal;

#[derive(Clone, Copy, Debug, PartialEq)]
enum Wrap {
	Plain,
	Grouped,
	Session,
}

#[derive(Clone, Copy, Debug, PartialEq)]
enum React {
	/// exits this many ms after any signal
	ExitAfter(u64),
	Ignore,
}

#[derive(Clone, Copy, Debug, PartialEq)]
enum State {
	Running,
	NeverStarted,
	Finished,
	/// a try_restart_with_signal with this grace was issued just before the quit (timer armed)
	MidGracefulRestart(u64),
	Deleted,
	QueuedControls,
	/// a graceful stop with this grace is pending (timer armed) when `delete_now()` is called, just before the quit
	GracefulStopThenDeleteNow(u64),
}

#[derive(Clone, Debug)]
struct JobSpec {
	wrap: Wrap,
	leader: React,
	grandchildren: Vec<React>,
	state: State,
	hold_clone: bool,
}

#[derive(Clone, Copy, Debug, PartialEq)]
enum Quit {
	Abort,
	Graceful { sig: i32, grace_ms: u64 },
}

#[derive(Clone, Debug)]
struct Scn {
	jobs: Vec<JobSpec>,
	quit: Quit,
	same_action: bool,
}

fn gen(rng: &mut Rng, k: usize) -> Scn {
	let njobs = match rng.below(8) {
		0 => 0,
		1..=4 => 1,
		5 | 6 => 2,
		_ => 3 + rng.usize(2),
	};
	let react = |rng: &mut Rng| match rng.below(4) {
		0 => React::Ignore,
		1 => React::ExitAfter(0),
		2 => React::ExitAfter(20),
		_ => React::ExitAfter(5),
	};
	let jobs = (0..njobs)
		.map(|_| JobSpec {
			wrap: *rng.pick(&[Wrap::Plain, Wrap::Grouped, Wrap::Grouped, Wrap::Session]),
			leader: react(rng),
			grandchildren: (0..*rng.pick(&[0usize, 0, 1, 2])).map(|_| react(rng)).collect(),
			state: *rng.pick(&[
				State::Running,
				State::Running,
				State::Running,
				State::NeverStarted,
				State::Finished,
				State::MidGracefulRestart(150),
				State::Deleted,
				State::QueuedControls,
				State::GracefulStopThenDeleteNow(400),
			]),
			hold_clone: rng.chance(1, 3),
		})
		.collect();
	let quit = if k % 2 == 0 {
		Quit::Abort
	} else {
		Quit::Graceful { sig: *rng.pick(&[15, 15, 2, 10]), grace_ms: *rng.pick(&[0u64, 100, 300]) }
	};
	Scn { jobs, quit, same_action: rng.chance(1, 6) }
}

fn scn_json(s: &Scn) -> Value {
	json!({"jobs": s.jobs.iter().map(|j| format!("{j:?}")).collect::<Vec<_>>(), "quit": format!("{:?}", s.quit), "quit_in_the_creating_action": s.same_action})
}

fn react_args(r: React) -> Vec<String> {
	match r {
		React::Ignore => vec!["--ignore".into()],
		React::ExitAfter(ms) => vec!["--on-signal".into(), format!("any:{ms}")],
	}
}

fn command(vchild: &Path, log: &Path, tag: &str, j: &JobSpec) -> Arc<Command> {
	let mut args = vec![log.display().to_string(), tag.to_string(), "--no-overlap-probe".to_string()];
	args.extend(react_args(j.leader));
	for g in &j.grandchildren {
		args.push("--fork".into());
		args.push(format!("1:{}", react_args(*g).join(",")));
	}
	Arc::new(Command {
		program: Program::Exec { prog: vchild.to_path_buf(), args },
		options: SpawnOptions { grouped: j.wrap == Wrap::Grouped, session: j.wrap == Wrap::Session, ..Default::default() },
	})
}

#[derive(Clone, Debug)]
struct Line {
	pid: i32,
	pgid: i32,
	tag: String,
	ev: String,
}

fn read_log(p: &Path) -> Vec<Line> {
	std::fs::read_to_string(p)
		.unwrap_or_default()
		.lines()
		.filter_map(|l| {
			let f: Vec<&str> = l.splitn(7, ' ').collect();
			if f.len() < 7 {
				return None;
			}
			Some(Line { pid: f[1].parse().ok()?, pgid: f[3].parse().ok()?, tag: f[5].to_string(), ev: f[6].to_string() })
		})
		.collect()
}

fn alive(pid: i32) -> bool {
	match std::fs::read_to_string(format!("/proc/{pid}/stat")) {
		Ok(s) => {
			let st = s.rfind(')').and_then(|i| s[i + 1..].trim_start().chars().next());
			!matches!(st, Some('Z') | Some('X') | None) && std::fs::read(format!("/proc/{pid}/cmdline")).map(|c| String::from_utf8_lossy(&c).contains("vchild")).unwrap_or(false)
		}
		Err(_) => false,
	}
}

fn phase_event(phase: &str) -> Event {
	let mut md = std::collections::HashMap::new();
	md.insert("verif-phase".to_string(), vec![phase.to_string()]);
	Event { tags: vec![], metadata: md }
}

pub fn run_one(args: &ShardArgs, rng: &mut Rng, rep: &mut Report, k: usize) {
	let vchild = PathBuf::from(std::env::var("VCHILD").unwrap_or_else(|_| "/verif/target/debug/vchild".into()));
	let scn = gen(rng, k);
	let log = args.scratch.join(format!("c08-{k}.log"));
	std::fs::remove_file(&log).ok();
	std::fs::write(&log, "").ok();
	let rt = tokio::runtime::Builder::new_multi_thread().worker_threads(3).enable_all().build().expect("runtime");
	let hb = Heartbeat::start();
	let held: Arc<Mutex<Vec<Job>>> = Arc::new(Mutex::new(vec![]));
	let quit_returned_at: Arc<Mutex<Option<u64>>> = Arc::new(Mutex::new(None));

	let (main_done_at, main_result, setup_ok) = rt.block_on(async {
		let jobs_in_handler: Arc<Mutex<Vec<(Job, JobSpec)>>> = Arc::new(Mutex::new(vec![]));
		let config = Config::default();
		config.throttle(Duration::from_millis(1));
		{
			let scn = scn.clone();
			let vchild = vchild.clone();
			let log = log.clone();
			let held = held.clone();
			let jh = jobs_in_handler.clone();
			let qr = quit_returned_at.clone();
			config.on_action_async(move |mut action| {
				let phases: Vec<String> = action.events.iter().filter_map(|e| e.metadata.get("verif-phase").cloned()).flatten().collect();
				let scn = scn.clone();
				let vchild = vchild.clone();
				let log = log.clone();
				let held = held.clone();
				let jh = jh.clone();
				let qr = qr.clone();
				Box::new(async move {
					for phase in phases {
						if phase == "setup" {
							for (i, spec) in scn.jobs.iter().enumerate() {
								let (_id, job) = action.create_job(command(&vchild, &log, &format!("j{i}"), spec));
								if spec.state != State::NeverStarted {
									job.start();
								}
								if spec.hold_clone {
									held.lock().unwrap().push(job.clone());
								}
								jh.lock().unwrap().push((job, spec.clone()));
							}
						}
						if phase == "prep" {
							let mut delete_now_later: Vec<Job> = vec![];
							for (job, spec) in jh.lock().unwrap().iter() {
								match spec.state {
									State::Finished => {
										job.stop();
									}
									State::MidGracefulRestart(g) => {
										job.try_restart_with_signal(Signal::User2, Duration::from_millis(g));
									}
									State::Deleted => {
										job.delete();
									}
									State::GracefulStopThenDeleteNow(g) => {
										job.stop_with_signal(Signal::User2, Duration::from_millis(g));
										delete_now_later.push(job.clone());
									}
									State::QueuedControls => {
										for _ in 0..20 {
											job.signal(Signal::User1);
											job.run(|_| {});
										}
									}
									_ => {}
								}
							}
							if !delete_now_later.is_empty() {
								// the urgent controls of delete_now must find the grace timer armed: give the graceful stop
								// time to be processed first
								tokio::time::sleep(Duration::from_millis(40)).await;
								for job in delete_now_later {
									job.delete_now();
								}
							}
						}
						if phase == "quit" {
							match scn.quit {
								Quit::Abort => action.quit(),
								Quit::Graceful { sig, grace_ms } => action.quit_gracefully(Signal::from(sig), Duration::from_millis(grace_ms)),
							}
							*qr.lock().unwrap() = Some(mono_ns());
							// the harness lets go of its own job handles: from here on only Watchexec (and the clones
							// deliberately held elsewhere) refer to the jobs
							jh.lock().unwrap().clear();
						}
					}
					action
				})
			});
		}
		let wx = Watchexec::with_config(config).expect("with_config");
		let main = wx.main();
		let expected_starts: usize = scn.jobs.iter().filter(|j| j.state != State::NeverStarted).map(|j| 1 + j.grandchildren.len()).sum();
		let mut setup_ok = true;
		if scn.same_action {
			// the quit is requested by the very action that creates the jobs: all three phases in one batch
			// one event carrying all three phases: a single invocation of the handler creates, drives and quits
			let mut ev = phase_event("setup");
			ev.metadata.insert("verif-phase".to_string(), vec!["setup".into(), "prep".into(), "quit".into()]);
			wx.send_event(ev, Priority::Normal).await.ok();
		} else {
			wx.send_event(phase_event("setup"), Priority::Urgent).await.ok();
			// readiness: every process that is going to run has written its `start` line
			let t0 = std::time::Instant::now();
			loop {
				let n = read_log(&log).iter().filter(|l| l.ev == "start").count();
				if n >= expected_starts {
					break;
				}
				if t0.elapsed() > Duration::from_secs(8) {
					setup_ok = false;
					break;
				}
				tokio::time::sleep(Duration::from_millis(3)).await;
			}
			wx.send_event(phase_event("prep"), Priority::Urgent).await.ok();
			tokio::time::sleep(Duration::from_millis(25)).await;
			wx.send_event(phase_event("quit"), Priority::Urgent).await.ok();
		}
		match tokio::time::timeout(Duration::from_secs(15), main).await {
			Ok(Ok(r)) => (Some(mono_ns()), Some(r.map_err(|e| e.to_string())), setup_ok),
			Ok(Err(e)) => (Some(mono_ns()), Some(Err(format!("join error: {e}"))), setup_ok),
			Err(_) => (None, None, setup_ok),
		}
	});
	let gap_during = hb.peek_max_gap();
	// survivors: every pid that ever appeared in the vchild log, polled for up to 2 s
	let t0 = std::time::Instant::now();
	let mut survivors: Vec<Line>;
	loop {
		let lines = read_log(&log);
		let mut pids: BTreeMap<i32, Line> = BTreeMap::new();
		for l in lines {
			if l.ev == "start" {
				pids.insert(l.pid, l);
			}
		}
		survivors = pids.into_values().filter(|l| alive(l.pid)).collect();
		if survivors.is_empty() || t0.elapsed() > Duration::from_secs(2) {
			break;
		}
		std::thread::sleep(Duration::from_millis(20));
	}
	let held_n = held.lock().unwrap().len();
	held.lock().unwrap().clear();
	rt.shutdown_timeout(Duration::from_millis(300));
	drop(hb);

	rep.eval();
	let lines = read_log(&log);
	rep.count("processes_started", lines.iter().filter(|l| l.ev == "start").count() as u64);
	rep.count("signals_seen_by_children", lines.iter().filter(|l| l.ev.starts_with("signal")).count() as u64);
	rep.count("job_handle_clones_held", held_n as u64);
	let mut f = Fnv::default();
	f.str(&format!("{:?}", scn.quit)).u64(scn.jobs.len() as u64);
	for j in &scn.jobs {
		f.str(&format!("{:?}{:?}{:?}{}", j.wrap, j.state, j.leader, j.grandchildren.len()));
	}
	if !scn.jobs.is_empty() {
		rep.nontrivial(f.finish());
	}
	let wit = || json!({"scenario": scn_json(&scn), "child_log": lines.iter().take(60).map(|l| format!("{} {} pgid={} {}", l.tag, l.pid, l.pgid, l.ev)).collect::<Vec<_>>() });
	let healthy = gap_during < Duration::from_millis(500);
	if !setup_ok {
		rep.inconclusive("children-did-not-start-in-time");
	} else {
		// (1) termination within the bound
		let quit_at = *quit_returned_at.lock().unwrap();
		match (main_done_at, quit_at) {
			(None, _) => {
				if healthy {
					rep.violation(
						&format!("C08/never-terminates/{}", if scn.quit == Quit::Abort { "abort" } else { "graceful" }),
						"the main task did not finish within 15 s of the quit request",
						wit(),
					);
				} else {
					rep.inconclusive("quit-machine-stalled");
				}
			}
			(Some(done), Some(q)) => {
				let took = Duration::from_nanos(done.saturating_sub(q));
				let bound = match scn.quit {
					Quit::Abort => Duration::from_millis(1000),
					Quit::Graceful { grace_ms, .. } => {
						let armed = scn.jobs.iter().map(|j| if let State::MidGracefulRestart(g) = j.state { g } else { 0 }).max().unwrap_or(0);
						Duration::from_millis(armed + grace_ms + 1000)
					}
				};
				rep.max("max_quit_latency_ms", took.as_millis() as u64);
				if took > bound {
					if healthy {
						rep.violation(
							&format!("C08/late/{}", if scn.quit == Quit::Abort { "abort" } else { "graceful" }),
							&format!("the main task finished {took:?} after the quit was requested; bound is {bound:?}"),
							wit(),
						);
					} else {
						rep.inconclusive("quit-late-but-machine-stalled");
					}
				}
			}
			_ => rep.inconclusive("quit-handler-never-ran"),
		}
		if let Some(Err(e)) = &main_result {
			rep.violation("C08/main-error", &format!("the main task ended with an error after a quit: {e}"), wit());
		}
		// (2) no survivor
		for s in &survivors {
			let grand = s.tag.contains(".g");
			let ji: usize = s.tag.trim_start_matches('j').split('.').next().and_then(|x| x.parse().ok()).unwrap_or(0);
			let spec = scn.jobs.get(ji);
			let wrap = spec.map_or("?".to_string(), |j| format!("{:?}", j.wrap).to_lowercase());
			let manner = if scn.quit == Quit::Abort { "abort" } else { "graceful" };
			if grand {
				// grandchildren are only promised to be gone after a graceful quit of a grouped / session command
				if scn.quit != Quit::Abort && spec.map_or(false, |j| j.wrap != Wrap::Plain) {
					let leader_exits = spec.map_or(false, |j| j.leader != React::Ignore);
					// which member survived: one that ignores signals (it can only die by a kill sent to the group) or one
					// that obeys them (then it was never even signalled)
					let gi: usize = s.tag.rsplit(".g").next().and_then(|x| x.parse::<usize>().ok()).map_or(0, |n| n / 10);
					let member_obeys = spec.and_then(|j| j.grandchildren.get(gi)).map_or(false, |g| *g != React::Ignore);
					// (a member forked after the signal went out is in the same position as one that ignores it; what sets
					// the other case apart is that not even the leader was signalled)
					let leader_tag = format!("j{ji}");
					let leader_signalled = lines.iter().any(|l| l.tag == leader_tag && l.ev.starts_with("signal"));
					let _ = member_obeys;
					let how = if !leader_signalled {
						"nobody-was-signalled"
					} else if leader_exits {
						"leader-exited-on-signal"
					} else {
						"leader-killed-at-expiry"
					};
					rep.violation(
						&format!("C08/survivor/{manner}/{wrap}/group-member/{how}"),
						&format!("process {} ({}) of job {ji}'s process group is still alive 2 s after the graceful quit", s.pid, s.tag),
						wit(),
					);
				}
			} else {
				rep.violation(
					&format!("C08/survivor/{manner}/{wrap}/child/{}", spec.map_or("?".into(), |j| format!("{:?}", j.state).split('(').next().unwrap().to_lowercase())),
					&format!("process {} ({}) started by job {ji} is still alive 2 s after the {manner} quit{}", s.pid, s.tag, if spec.map_or(false, |j| j.hold_clone) { " (a clone of the job handle is held elsewhere)" } else { "" }),
					wit(),
				);
			}
		}
	}
	if k < 2 {
		rep.sample(wit());
	}
	// clean up whatever is left (also legit survivors such as plain grandchildren after an abort)
	for l in lines.iter().filter(|l| l.ev == "start") {
		if alive(l.pid) {
			unsafe { libc::kill(l.pid, libc::SIGKILL) };
		}
	}
	std::fs::remove_file(&log).ok();
}
