//! Synthetic-event scenarios against a real `Watchexec` instance (action worker, filter, error hook):
//! the workload and the recorded history used by C01 (conservation), C02 (debounce) and C15 (errors).

use std::{
	collections::{BTreeMap, BTreeSet, HashMap},
	sync::{
		atomic::{AtomicBool, AtomicU64, Ordering},
		Arc, Mutex,
	},
	time::Duration,
};

use vcommon::{json, mono_ns, Heartbeat, Rng, Value};
use watchexec::{
	error::{CriticalError, RuntimeError},
	filter::Filterer,
	Config, ErrorHook, Watchexec,
};
use watchexec_events::{Event, FileType, Keyboard, Priority, ProcessEnd, Source, Tag};
use watchexec_signals::Signal;

#[derive(Clone, Copy, Debug, PartialEq, Eq)]
pub enum Verdict {
	Pass,
	Reject,
	Error,
}

#[derive(Clone, Copy, Debug, PartialEq, Eq)]
pub enum Kind {
	Path,
	Signal,
	Keyboard,
	Process,
	Completion,
	Source,
	Empty,
}

#[derive(Clone, Debug)]
pub struct EvSpec {
	pub prio: Priority,
	pub kind: Kind,
	pub verdict: Verdict,
	/// pause before sending, microseconds (0 = none, 1 = yield)
	pub gap_us: u64,
}

#[derive(Clone, Debug)]
pub enum HandlerKind {
	Sync(u64),       // blocking sleep, microseconds
	AsyncYield,
	AsyncSleep(u64), // tokio sleep, microseconds
}

#[derive(Clone, Debug, PartialEq)]
pub enum ErrBehaviour {
	Ignore,
	ElevateNth(usize),
	CriticalNth(usize),
	ReplaceSelf(usize),
	Slow(u64), // ms
}

#[derive(Clone, Debug)]
pub struct Synth {
	pub chan: usize,
	pub err_chan: usize,
	pub throttle_ms: u64,
	/// (offset from start in ms, new throttle in ms)
	pub throttle_changes: Vec<(u64, u64)>,
	pub handler: HandlerKind,
	pub producers: Vec<Vec<EvSpec>>,
	pub threads: usize,
	pub err: ErrBehaviour,
	/// the error handler keeps the hooks of the errors it does not elevate alive until the end of the run (moved out of
	/// the handler): a later elevation through a fresh hook must still end the main task
	pub retain_hooks: bool,
	/// busy threads beside the runtime for the duration of the scenario: forces pre-emption at arbitrary points of the
	/// workers (races a few instructions wide are only seen when a thread loses the CPU inside them)
	pub spinners: usize,
	pub filter_delay_us: u64,
	/// after the producers finished: stream rejected (or erroring) events until every expected event was delivered
	pub starve_with: Option<Verdict>,
	/// number of concurrent flood producers and whether they pause between events
	pub flood_producers: usize,
	pub flood_pause: bool,
}

#[derive(Clone, Debug)]
pub struct Sent {
	pub id: u64,
	pub prio: Priority,
	pub verdict: Verdict,
	pub kind: Kind,
	pub t_before: u64,
	pub t_after: u64,
	pub ok: bool,
	pub flood: bool,
}

#[derive(Clone, Debug)]
pub struct Batch {
	pub ids: Vec<u64>,
	pub empty_batch: bool,
	pub t_enter: u64,
	pub t_exit: u64,
	pub unknown_events: usize,
}

#[derive(Clone, Debug)]
pub struct ErrRec {
	pub t: u64,
	pub filter_id: Option<u64>,
	pub text: String,
	pub handler_version: u32,
}

#[derive(Clone, Debug, Default)]
pub struct History {
	pub sent: Vec<Sent>,
	pub filter_calls: Vec<(u64, u64)>,
	pub batches: Vec<Batch>,
	pub errors: Vec<ErrRec>,
	pub main_result: Option<Result<(), String>>,
	pub main_done_at: Option<u64>,
	pub quit_sent_at: Option<u64>,
	pub quit_send_ok: bool,
	pub producers_done_at: u64,
	pub delivery_wait_timed_out: bool,
	pub hb_max_gap: Duration,
	pub t0: u64,
	pub throttle_log: Vec<(u64, u64)>,
	pub flood_sent: u64,
	pub flood_running_at_delivery: bool,
	/// the error handler started / finished replacing itself from inside its own invocation
	pub producers_stuck: bool,
	pub replace_started: Option<u64>,
	pub replace_done: Option<u64>,
	pub wall: Duration,
}

#[derive(Debug)]
struct VFilter {
	calls: Arc<Mutex<Vec<(u64, u64)>>>,
	delay_us: u64,
}

/// `throttle_ms` value standing for a window that never ends by itself (`Duration::MAX`: "flush only on urgent")
pub const UNBOUNDED_MS: u64 = u64::MAX;

pub fn thr(ms: u64) -> Duration {
	if ms == UNBOUNDED_MS {
		Duration::MAX
	} else {
		Duration::from_millis(ms)
	}
}

pub fn ev_id(ev: &Event) -> Option<u64> {
	ev.metadata.get("verif-id").and_then(|v| v.first()).and_then(|s| s.parse().ok())
}

impl Filterer for VFilter {
	fn check_event(&self, event: &Event, _priority: Priority) -> Result<bool, RuntimeError> {
		let id = ev_id(event).unwrap_or(u64::MAX);
		self.calls.lock().unwrap().push((id, mono_ns()));
		if self.delay_us > 0 {
			std::thread::sleep(Duration::from_micros(self.delay_us));
		}
		match event.metadata.get("verif-verdict").and_then(|v| v.first()).map(String::as_str) {
			Some("reject") => Ok(false),
			Some("error") => Err(RuntimeError::Filterer { kind: "verif", err: format!("verif-filter-error id={id}").into() }),
			_ => Ok(true),
		}
	}
}

pub fn make_event(id: u64, kind: Kind, verdict: Verdict, quit: bool) -> Event {
	let tags = match kind {
		Kind::Path => vec![
			Tag::Source(Source::Filesystem),
			Tag::Path { path: format!("/verif/synthetic/{id}").into(), file_type: Some(FileType::File) },
		],
		Kind::Signal => vec![Tag::Source(Source::Os), Tag::Signal(Signal::User1)],
		Kind::Keyboard => vec![Tag::Source(Source::Keyboard), Tag::Keyboard(Keyboard::Eof)],
		Kind::Process => vec![Tag::Process(id as u32)],
		Kind::Completion => vec![Tag::ProcessCompletion(Some(ProcessEnd::Success))],
		Kind::Source => vec![Tag::Source(Source::Internal)],
		Kind::Empty => vec![],
	};
	let mut metadata = HashMap::new();
	metadata.insert("verif-id".to_string(), vec![id.to_string()]);
	metadata.insert(
		"verif-verdict".to_string(),
		vec![match verdict {
			Verdict::Pass => "pass",
			Verdict::Reject => "reject",
			Verdict::Error => "error",
		}
		.to_string()],
	);
	if quit {
		metadata.insert("verif-quit".to_string(), vec!["1".into()]);
	}
	Event { tags, metadata }
}

struct Shared {
	batches: Mutex<Vec<Batch>>,
	delivered: Mutex<BTreeSet<u64>>,
	errors: Mutex<Vec<ErrRec>>,
	err_count: AtomicU64,
	handler_version: AtomicU64,
	replace_started: AtomicU64,
	replace_done: AtomicU64,
	retained: Mutex<Vec<ErrorHook>>,
	retain: bool,
}

pub fn run(s: &Synth) -> History {
	let rt = tokio::runtime::Builder::new_multi_thread().worker_threads(s.threads.max(1)).enable_all().build().expect("runtime");
	let hb = Heartbeat::start();
	let stop_spin = Arc::new(AtomicBool::new(false));
	let spinners: Vec<_> = (0..s.spinners)
		.map(|_| {
			let stop = stop_spin.clone();
			std::thread::spawn(move || {
				while !stop.load(Ordering::Relaxed) {
					std::hint::spin_loop();
				}
			})
		})
		.collect();
	let t0 = std::time::Instant::now();
	let mut h = rt.block_on(drive(s));
	h.wall = t0.elapsed();
	stop_spin.store(true, Ordering::Relaxed);
	for t in spinners {
		t.join().ok();
	}
	h.hb_max_gap = hb.take_max_gap();
	drop(hb);
	rt.shutdown_timeout(Duration::from_millis(200));
	h
}

fn install_error_handler(config: &Arc<Config>, shared: &Arc<Shared>, behaviour: ErrBehaviour, version: u32) {
	let sh = shared.clone();
	let cfg = config.clone();
	config.on_error(move |hook: ErrorHook| {
		let text = hook.error.to_string();
		let full = format!("{text} / {:?}", hook.error);
		let filter_id = full.split("verif-filter-error id=").nth(1).and_then(|r| r.split(|c: char| !c.is_ascii_digit()).next()).and_then(|d| d.parse().ok());
		let n = sh.err_count.fetch_add(1, Ordering::SeqCst) as usize;
		sh.errors.lock().unwrap().push(ErrRec { t: mono_ns(), filter_id, text: full, handler_version: version });
		match &behaviour {
			ErrBehaviour::Ignore => {}
			ErrBehaviour::ElevateNth(k) if n == *k => hook.elevate(),
			ErrBehaviour::CriticalNth(k) if n == *k => hook.critical(CriticalError::External(format!("verif-critical after error #{n}").into())),
			ErrBehaviour::ReplaceSelf(k) if n == *k => {
				sh.handler_version.store(u64::from(version) + 1, Ordering::SeqCst);
				sh.replace_started.store(mono_ns(), Ordering::SeqCst);
				install_error_handler(&cfg, &sh, ErrBehaviour::Ignore, version + 1);
				sh.replace_done.store(mono_ns(), Ordering::SeqCst);
			}
			ErrBehaviour::Slow(ms) => std::thread::sleep(Duration::from_millis(*ms)),
			_ => {
				if sh.retain {
					sh.retained.lock().unwrap().push(hook);
				}
			}
		}
	});
}

async fn drive(s: &Synth) -> History {
	let shared = Arc::new(Shared {
		batches: Mutex::new(vec![]),
		delivered: Mutex::new(BTreeSet::new()),
		errors: Mutex::new(vec![]),
		err_count: AtomicU64::new(0),
		handler_version: AtomicU64::new(0),
		replace_started: AtomicU64::new(0),
		replace_done: AtomicU64::new(0),
		retained: Mutex::new(vec![]),
		retain: s.retain_hooks,
	});
	let filter_calls = Arc::new(Mutex::new(vec![]));
	let mut config = Config::default();
	config.event_channel_size = s.chan;
	config.error_channel_size = s.err_chan;
	config.throttle(thr(s.throttle_ms));
	config.filterer(VFilter { calls: filter_calls.clone(), delay_us: s.filter_delay_us });

	let record = {
		let sh = shared.clone();
		move |events: &[Event]| -> (Batch, bool) {
			let t_enter = mono_ns();
			let mut ids = vec![];
			let mut unknown = 0;
			let mut quit = false;
			for e in events {
				match ev_id(e) {
					Some(id) => ids.push(id),
					None => unknown += 1,
				}
				if e.metadata.contains_key("verif-quit") {
					quit = true;
				}
			}
			let mut d = sh.delivered.lock().unwrap();
			for id in &ids {
				d.insert(*id);
			}
			(Batch { ids, empty_batch: events.is_empty(), t_enter, t_exit: 0, unknown_events: unknown }, quit)
		}
	};
	match s.handler.clone() {
		HandlerKind::Sync(us) => {
			let sh = shared.clone();
			config.on_action(move |mut action| {
				let (mut b, quit) = record(&action.events);
				if us > 0 {
					std::thread::sleep(Duration::from_micros(us));
				}
				if quit {
					action.quit();
				}
				b.t_exit = mono_ns();
				sh.batches.lock().unwrap().push(b);
				action
			});
		}
		HandlerKind::AsyncYield | HandlerKind::AsyncSleep(_) => {
			let sh = shared.clone();
			let hk = s.handler.clone();
			config.on_action_async(move |mut action| {
				let (mut b, quit) = record(&action.events);
				let sh = sh.clone();
				let hk = hk.clone();
				Box::new(async move {
					match hk {
						HandlerKind::AsyncSleep(us) => tokio::time::sleep(Duration::from_micros(us)).await,
						_ => tokio::task::yield_now().await,
					}
					if quit {
						action.quit();
					}
					b.t_exit = mono_ns();
					sh.batches.lock().unwrap().push(b);
					action
				})
			});
		}
	}
	let wx = match Watchexec::with_config(config) {
		Ok(wx) => Arc::new(wx),
		Err(e) => {
			return History { main_result: Some(Err(format!("with_config failed: {e}"))), ..Default::default() };
		}
	};
	install_error_handler(&wx.config, &shared, s.err.clone(), 0);
	let mut hist = History { t0: mono_ns(), ..Default::default() };
	hist.throttle_log.push((hist.t0, s.throttle_ms));
	let main = wx.main();
	let main_done = Arc::new(AtomicBool::new(false));
	let main_task = {
		let md = main_done.clone();
		tokio::spawn(async move {
			let r = main.await;
			md.store(true, Ordering::SeqCst);
			(r, mono_ns())
		})
	};

	// throttle changes
	let tlog = Arc::new(Mutex::new(vec![]));
	let changer = {
		let wx = wx.clone();
		let changes = s.throttle_changes.clone();
		let tlog = tlog.clone();
		tokio::spawn(async move {
			let start = tokio::time::Instant::now();
			for (at, new) in changes {
				tokio::time::sleep_until(start + Duration::from_millis(at)).await;
				// log before the change takes effect: a conservative lower bound from then on
				tlog.lock().unwrap().push((mono_ns(), new));
				wx.config.throttle(Duration::from_millis(new));
			}
		})
	};

	// producers
	let sent = Arc::new(Mutex::new(Vec::<Sent>::new()));
	let next_id = Arc::new(AtomicU64::new(1));
	let mut ptasks: Vec<tokio::task::JoinHandle<()>> = vec![];
	for (pi, evs) in s.producers.iter().enumerate() {
		let wx = wx.clone();
		let evs = evs.clone();
		let sent = sent.clone();
		let next_id = next_id.clone();
		let _ = pi;
		ptasks.push(tokio::spawn(async move {
			for e in evs {
				match e.gap_us {
					0 => {}
					1 => tokio::task::yield_now().await,
					us if us < 1000 => {
						let until = mono_ns() + us * 1000;
						while mono_ns() < until {
							tokio::task::yield_now().await;
						}
					}
					us => tokio::time::sleep(Duration::from_micros(us)).await,
				}
				let id = next_id.fetch_add(1, Ordering::SeqCst);
				let ev = make_event(id, e.kind, e.verdict, false);
				let t_before = mono_ns();
				let ok = wx.send_event(ev, e.prio).await.is_ok();
				let t_after = mono_ns();
				sent.lock().unwrap().push(Sent { id, prio: e.prio, verdict: e.verdict, kind: e.kind, t_before, t_after, ok, flood: false });
			}
		}));
	}
	// bounded progress: producers only block on back pressure, which the action worker relieves
	let all = async {
		for p in ptasks.iter_mut() {
			p.await.ok();
		}
	};
	if tokio::time::timeout(Duration::from_secs(12), all).await.is_err() {
		hist.producers_stuck = true;
		for p in &ptasks {
			p.abort();
		}
	}
	hist.producers_done_at = mono_ns();

	let expected: BTreeSet<u64> = sent
		.lock()
		.unwrap()
		.iter()
		.filter(|e| e.ok && (e.prio == Priority::Urgent || e.kind == Kind::Empty || e.verdict == Verdict::Pass))
		.map(|e| e.id)
		.collect();

	// optional flood of rejected / erroring events until everything expected was delivered
	let flood_stop = Arc::new(AtomicBool::new(false));
	let flood: Vec<_> = match s.starve_with {
		None => vec![],
		Some(v) => (0..s.flood_producers.max(1))
			.map(|fi| {
				let wx = wx.clone();
				let sent = sent.clone();
				let next_id = next_id.clone();
				let stop = flood_stop.clone();
				let pause = s.flood_pause;
				tokio::spawn(async move {
					let mut n = 0u64;
					let mut r = Rng::new(7 + fi as u64);
					while !stop.load(Ordering::SeqCst) {
						let id = next_id.fetch_add(1, Ordering::SeqCst);
						let t_before = mono_ns();
						let ok = wx.send_event(make_event(id, Kind::Path, v, false), Priority::Normal).await.is_ok();
						let t_after = mono_ns();
						if n < 2000 {
							sent.lock().unwrap().push(Sent { id, prio: Priority::Normal, verdict: v, kind: Kind::Path, t_before, t_after, ok, flood: true });
						}
						n += 1;
						if pause {
							tokio::time::sleep(Duration::from_micros(200 + r.below(1800))).await;
						} else {
							tokio::task::yield_now().await;
						}
						if !ok {
							break;
						}
					}
					n
				})
			})
			.collect(),
	};

	// bounded progress: wait for every expected delivery (cap), while main is alive
	// (an unbounded window ends with the scenario's own urgent event: 10 s is the whole allowance there)
	let longest = s.throttle_ms.max(s.throttle_changes.iter().map(|c| c.1).max().unwrap_or(0));
	let cap = Duration::from_millis(if longest >= 1_000_000 { 0 } else { longest * 3 } + if s.starve_with.is_some() { 3_000 } else { 10_000 });
	let wait_start = std::time::Instant::now();
	loop {
		let done = {
			let d = shared.delivered.lock().unwrap();
			expected.iter().all(|id| d.contains(id))
		};
		if done || main_done.load(Ordering::SeqCst) {
			break;
		}
		if wait_start.elapsed() > cap || hist.producers_stuck {
			hist.delivery_wait_timed_out = true;
			break;
		}
		tokio::time::sleep(Duration::from_millis(1)).await;
	}
	if !flood.is_empty() {
		hist.flood_running_at_delivery = flood.iter().all(|f| !f.is_finished());
		flood_stop.store(true, Ordering::SeqCst);
		for f in flood {
			hist.flood_sent += f.await.unwrap_or(0);
		}
	}
	changer.abort();
	// late duplicates would show up now
	let maxthr = s.throttle_ms.max(s.throttle_changes.iter().map(|c| c.1).max().unwrap_or(0));
	tokio::time::sleep(Duration::from_millis((maxthr.saturating_mul(2).saturating_add(20)).min(1500))).await;

	// quit through a dedicated urgent event
	if !main_done.load(Ordering::SeqCst) {
		let id = next_id.fetch_add(1, Ordering::SeqCst);
		hist.quit_sent_at = Some(mono_ns());
		hist.quit_send_ok = wx.send_event(make_event(id, Kind::Source, Verdict::Reject, true), Priority::Urgent).await.is_ok();
	}
	match tokio::time::timeout(Duration::from_secs(if hist.producers_stuck { 2 } else { 10 }), main_task).await {
		Ok(Ok((res, at))) => {
			hist.main_done_at = Some(at);
			hist.main_result = Some(match res {
				Ok(Ok(())) => Ok(()),
				Ok(Err(e)) => Err(format!("{e} / {e:?}")),
				Err(e) => Err(format!("join error: {e}")),
			});
		}
		_ => hist.main_result = None,
	}
	hist.sent = sent.lock().unwrap().clone();
	hist.sent.sort_by_key(|e| e.id);
	hist.filter_calls = filter_calls.lock().unwrap().clone();
	hist.batches = shared.batches.lock().unwrap().clone();
	hist.batches.sort_by_key(|b| b.t_enter);
	hist.errors = shared.errors.lock().unwrap().clone();
	let (rs, rd) = (shared.replace_started.load(Ordering::SeqCst), shared.replace_done.load(Ordering::SeqCst));
	hist.replace_started = (rs != 0).then_some(rs);
	hist.replace_done = (rd != 0).then_some(rd);
	hist.throttle_log.extend(tlog.lock().unwrap().iter().copied());
	hist
}

// ---------------------------------------------------------------------------------------------
// generators

pub fn gen_events(rng: &mut Rng, n: usize, throttle_ms: u64, with_errors: bool) -> Vec<EvSpec> {
	let kinds = [Kind::Path, Kind::Path, Kind::Signal, Kind::Keyboard, Kind::Process, Kind::Completion, Kind::Source, Kind::Empty];
	(0..n)
		.map(|_| EvSpec {
			prio: match rng.below(10) {
				0 => Priority::Low,
				1..=5 => Priority::Normal,
				6 | 7 => Priority::High,
				_ => Priority::Urgent,
			},
			kind: *rng.pick(&kinds),
			verdict: match rng.below(if with_errors { 6 } else { 5 }) {
				0 | 1 | 2 => Verdict::Pass,
				3 | 4 => Verdict::Reject,
				_ => Verdict::Error,
			},
			gap_us: match rng.below(12) {
				0..=4 => 0,
				5 | 6 => 1,
				7..=9 => 50 + rng.below(500),
				10 => rng.below(throttle_ms * 1000 / 4 + 1),
				_ => rng.below(2 * throttle_ms * 1000 + 1),
			},
		})
		.collect()
}

pub fn gen_synth(rng: &mut Rng, with_errors: bool, small: bool) -> Synth {
	let throttle_ms = *rng.pick(&[0u64, 1, 5, 20, 20, 50]);
	let nprod = 1 + rng.usize(if small { 3 } else { 8 });
	let per = if small { 5 + rng.usize(25) } else { 5 + rng.usize(120) };
	Synth {
		chan: *rng.pick(&[1usize, 2, 8, 4096, 4096]),
		err_chan: *rng.pick(&[1usize, 2, 64]),
		throttle_ms,
		throttle_changes: vec![],
		handler: match rng.below(5) {
			0 | 1 => HandlerKind::Sync(0),
			2 => HandlerKind::Sync(1000 + rng.below(9000)),
			3 => HandlerKind::AsyncYield,
			_ => HandlerKind::AsyncSleep(500 + rng.below(8000)),
		},
		producers: (0..nprod).map(|_| gen_events(rng, per, throttle_ms, with_errors)).collect::<Vec<_>>(),
		threads: 2 + rng.usize(7),
		err: ErrBehaviour::Ignore,
		retain_hooks: false,
		spinners: 0,
		filter_delay_us: if rng.chance(1, 8) { 200 } else { 0 },
		starve_with: None,
		flood_producers: 1,
		flood_pause: true,
	}
}

pub fn synth_json(s: &Synth) -> Value {
	json!({
		"event_channel_size": s.chan, "error_channel_size": s.err_chan, "throttle_ms": s.throttle_ms,
		"throttle_changes": s.throttle_changes, "handler": format!("{:?}", s.handler), "threads": s.threads,
		"error_handler": format!("{:?}", s.err), "filter_delay_us": s.filter_delay_us, "starve_with": format!("{:?}", s.starve_with), "flood_producers": s.flood_producers, "flood_pause": s.flood_pause,
		"producers": s.producers.iter().map(|p| p.iter().map(|e| json!([format!("{:?}", e.prio), format!("{:?}", e.kind), format!("{:?}", e.verdict), e.gap_us])).collect::<Vec<_>>()).collect::<Vec<_>>(),
	})
}

pub fn history_json(h: &History, max: usize) -> Value {
	let rel = |t: u64| (t.saturating_sub(h.t0)) as f64 / 1e6;
	json!({
		"sent": h.sent.iter().take(max).map(|e| json!({"id": e.id, "prio": format!("{:?}", e.prio), "verdict": format!("{:?}", e.verdict), "kind": format!("{:?}", e.kind),
			"before_ms": rel(e.t_before), "after_ms": rel(e.t_after), "ok": e.ok, "flood": e.flood})).collect::<Vec<_>>(),
		"batches": h.batches.iter().take(max).map(|b| json!({"ids": b.ids, "enter_ms": rel(b.t_enter), "exit_ms": rel(b.t_exit)})).collect::<Vec<_>>(),
		"errors": h.errors.iter().take(max).map(|e| json!({"t_ms": rel(e.t), "filter_id": e.filter_id, "text": e.text.chars().take(160).collect::<String>(), "handler_version": e.handler_version})).collect::<Vec<_>>(),
		"main_result": format!("{:?}", h.main_result), "hb_max_gap_ms": h.hb_max_gap.as_secs_f64() * 1000.0,
		"throttle_log": h.throttle_log.iter().map(|(t, v)| json!([rel(*t), v])).collect::<Vec<_>>(),
	})
}

/// ids per category, for the checkers
pub fn index(h: &History) -> BTreeMap<u64, &Sent> {
	h.sent.iter().map(|e| (e.id, e)).collect()
}
