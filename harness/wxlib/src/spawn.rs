//! C18 (library part): commands are spawned with exactly the configured program and arguments, in
//! the configured process group / session, and see the spawn hook's environment and directory.

use std::{
	borrow::Cow,
	ffi::OsStr,
	path::{Path, PathBuf},
	sync::Arc,
	time::Duration,
};

use vcommon::{json, Fnv, Report, Rng, ShardArgs};
use watchexec_supervisor::{
	command::{Command, Program, Shell, SpawnOptions},
	job::start_job,
};

const POOL: &[&str] = &[
	"", " ", "a b", "  two  spaces ", "\"dq\"", "'sq'", "$HOME", "${PATH}", "*", "*.rs", ";", "&&", "|", "`id`", "$(id)", "line1\nline2", "tab\there", "é", "日本語", "🦀", "-n", "--", "-c", "\\",
	"back\\slash", "%s", "~", "#comment", "a=b", "{x,y}", "[abc]", "!", "<in", ">out",
];

fn gen_args(rng: &mut Rng) -> Vec<String> {
	let n = match rng.below(6) {
		0 => 0,
		1 => 1,
		_ => 1 + rng.usize(8),
	};
	let mut v: Vec<String> = (0..n).map(|_| (*rng.pick(POOL)).to_string()).collect();
	if rng.chance(1, 20) {
		v.push("x".repeat(4096));
	}
	v
}

fn unhex(s: &str) -> Vec<u8> {
	(0..s.len() / 2).filter_map(|i| u8::from_str_radix(&s[2 * i..2 * i + 2], 16).ok()).collect()
}

struct Dump {
	argv: Vec<Vec<u8>>,
	cwd: Vec<u8>,
	env: Vec<(String, String)>,
	pid: i32,
	pgid: i32,
	sid: i32,
}

fn read_dumps(log: &Path) -> Vec<Dump> {
	let txt = std::fs::read_to_string(log).unwrap_or_default();
	let mut out: Vec<Dump> = vec![];
	let mut cur: Option<Dump> = None;
	for l in txt.lines() {
		let f: Vec<&str> = l.splitn(7, ' ').collect();
		if f.len() < 7 {
			continue;
		}
		let ev = f[6];
		let pid: i32 = f[1].parse().unwrap_or(0);
		if cur.as_ref().map_or(true, |c| c.pid != pid) && (ev.starts_with("argv") || ev.starts_with("cwd") || ev.starts_with("env") || ev == "start") {
			cur = Some(Dump { argv: vec![], cwd: vec![], env: vec![], pid, pgid: 0, sid: 0 });
		}
		let Some(d) = cur.as_mut() else { continue };
		if let Some(a) = ev.strip_prefix("argv ") {
			d.argv = a.split(',').map(unhex).collect();
		} else if let Some(c) = ev.strip_prefix("cwd ") {
			d.cwd = unhex(c);
		} else if let Some(e) = ev.strip_prefix("env ") {
			d.env = e
				.split(',')
				.filter_map(|kv| kv.split_once('='))
				.map(|(k, v)| (String::from_utf8_lossy(&unhex(k)).to_string(), String::from_utf8_lossy(&unhex(v)).to_string()))
				.collect();
		} else if ev == "start" {
			d.pgid = f[3].parse().unwrap_or(0);
			d.sid = f[4].parse().unwrap_or(0);
			out.push(cur.take().unwrap());
		}
	}
	out
}

pub fn run_one(args: &ShardArgs, rng: &mut Rng, rep: &mut Report, k: usize) {
	let vchild = PathBuf::from(std::env::var("VCHILD").unwrap_or_else(|_| "/verif/target/debug/vchild".into()));
	let log = args.scratch.join(format!("c18-{k}.log"));
	std::fs::remove_file(&log).ok();
	let workdir = args.scratch.join("c18 work dir");
	std::fs::create_dir_all(&workdir).ok();
	let workdir = workdir.canonicalize().unwrap();

	let extra = gen_args(rng);
	let wrap = rng.below(4).min(2); // 0 plain, 1 grouped, 2 session (half of those with `grouped` set as well: the session wins)
	let both = wrap == 2 && rng.chance(1, 2);
	let shell_mode = k % 2 == 1;
	let hook_env = rng.chance(2, 3);
	let hook_cwd = rng.chance(1, 2);
	// vchild takes LOG / TAG / OPTS from the environment here, so that the whole argv is free for the test
	let (program, expected_argv): (Program, Vec<Vec<u8>>) = if shell_mode {
		let options = gen_args(rng).into_iter().take(3).collect::<Vec<_>>();
		let progopt: Option<&str> = *rng.pick(&[Some("-c"), Some("-c"), Some("/C"), None]);
		let command = (*rng.pick(POOL)).to_string() + " " + *rng.pick(POOL);
		let mut exp: Vec<Vec<u8>> = vec![vchild.display().to_string().into_bytes()];
		exp.extend(options.iter().map(|s| s.as_bytes().to_vec()));
		if let Some(p) = progopt {
			exp.push(p.as_bytes().to_vec());
		}
		exp.push(command.as_bytes().to_vec());
		exp.extend(extra.iter().map(|s| s.as_bytes().to_vec()));
		(
			Program::Shell {
				shell: Shell { prog: vchild.clone(), options, program_option: progopt.map(|p| Cow::Owned(OsStr::new(p).to_owned())) },
				command,
				args: extra.clone(),
			},
			exp,
		)
	} else {
		let mut exp: Vec<Vec<u8>> = vec![vchild.display().to_string().into_bytes()];
		exp.extend(extra.iter().map(|s| s.as_bytes().to_vec()));
		(Program::Exec { prog: vchild.clone(), args: extra.clone() }, exp)
	};
	let command = Arc::new(Command { program, options: SpawnOptions { grouped: wrap == 1 || both, session: wrap == 2, ..Default::default() } });

	// every path that spawns must honour the configuration and the hook: 0 = start only, 1 = restart,
	// 2 = try_restart, 3 = try_restart_with_signal (old process exits in the grace period), 4 = same, forced at expiry
	// 5 = stop, unset_spawn_hook, start: the second process must see nothing of the hook (its own settings then come from
	// this process' environment, set before the runtime exists)
	let respawn = if k % 3 == 2 { 1 + rng.usize(5) } else { 0 };
	let hook_env = hook_env || respawn == 5;
	let child_opts = match respawn {
		0 => "--dump --exit-after 5 --no-overlap-probe",
		4 => "--dump --exit-after 1500 --ignore --no-overlap-probe",
		_ => "--dump --exit-after 1500 --on-signal any:0 --no-overlap-probe",
	};
	if respawn == 5 {
		std::env::set_var("VCHILD_LOG", &log);
		std::env::set_var("VCHILD_TAG", "c18");
		std::env::set_var("VCHILD_OPTS", child_opts);
	}
	let rt = tokio::runtime::Builder::new_multi_thread().worker_threads(2).enable_all().build().expect("runtime");
	let log2 = log.clone();
	let wd = workdir.clone();
	let marker = format!("hook-{k}-é $x");
	let marker2 = marker.clone();
	rt.block_on(async move {
		let (job, task) = start_job(command);
		let log3 = log2.clone();
		job.set_spawn_hook(move |cmd, _| {
			let c = cmd.command_mut();
			c.env("VCHILD_LOG", &log3).env("VCHILD_TAG", "c18").env("VCHILD_OPTS", child_opts);
			if hook_env {
				c.env("VERIF_HOOK_VALUE", &marker2);
			}
			if hook_cwd {
				c.current_dir(&wd);
			}
		});
		job.start().await;
		if respawn == 0 {
			tokio::time::timeout(Duration::from_secs(10), job.to_wait()).await.ok();
		} else {
			let starts = |p: &Path| read_dumps(p).len();
			let t0 = std::time::Instant::now();
			while starts(&log2) < 1 && t0.elapsed() < Duration::from_secs(5) {
				tokio::time::sleep(Duration::from_millis(2)).await;
			}
			match respawn {
				1 => {
					job.restart();
				}
				2 => {
					job.try_restart();
				}
				5 => {
					job.stop().await;
					job.unset_spawn_hook();
					job.start();
				}
				_ => {
					job.try_restart_with_signal(watchexec_signals::Signal::Terminate, Duration::from_millis(60));
				}
			}
			let t1 = std::time::Instant::now();
			while starts(&log2) < 2 && t1.elapsed() < Duration::from_secs(5) {
				tokio::time::sleep(Duration::from_millis(2)).await;
			}
		}
		job.delete_now().await;
		tokio::time::timeout(Duration::from_secs(5), task).await.ok();
	});
	rt.shutdown_timeout(Duration::from_millis(200));
	if respawn == 5 {
		for v in ["VCHILD_LOG", "VCHILD_TAG", "VCHILD_OPTS"] {
			std::env::remove_var(v);
		}
	}

	rep.eval();
	let mut h = Fnv::default();
	h.u64(wrap).u64(u64::from(shell_mode));
	for a in &expected_argv[1..] {
		h.bytes(a);
	}
	if expected_argv.len() > 1 {
		rep.nontrivial(h.finish());
	}
	rep.count("arguments_compared", expected_argv.len() as u64);
	let show = |v: &[Vec<u8>]| v.iter().map(|a| String::from_utf8_lossy(a).to_string()).collect::<Vec<_>>();
	let dumps = read_dumps(&log);
	let want_spawns = if respawn == 0 { 1 } else { 2 };
	rep.count("spawn_paths_exercised", 1);
	if respawn > 0 {
		rep.count(["", "respawn_via_restart", "respawn_via_try_restart", "respawn_via_graceful_continuation", "respawn_via_grace_expiry", "respawn_after_unset_spawn_hook"][respawn], 1);
	}
	if dumps.len() < want_spawns {
		rep.violation(
			&format!("C18/child-did-not-run/spawn{}", dumps.len() + 1),
			&format!("{} of {want_spawns} expected processes wrote a start line (respawn path {respawn})", dumps.len()),
			json!({"expected_argv": show(&expected_argv)}),
		);
		return;
	}
	for (di, d) in dumps.iter().enumerate() {
	let path_name = if di == 0 { "start" } else { ["", "restart", "try_restart", "graceful-continuation", "grace-expiry", "start-after-unset-hook"][respawn] };
	// after unset_spawn_hook the hook must not run any more: neither its variable nor its directory
	if respawn == 5 && di > 0 && hook_cwd && d.cwd == workdir.display().to_string().into_bytes() {
		rep.violation("C18/hook/stale-cwd", "the process started after unset_spawn_hook still ran in the directory the removed hook used to set", json!({"path": path_name}));
	}
	let (hook_env, hook_cwd) = if respawn == 5 && di > 0 { (false, false) } else { (hook_env, hook_cwd) };
	let wit = || json!({"shell_mode": shell_mode, "wrap": (["plain", "grouped", "session"][wrap as usize]), "grouped_also_set": both, "expected_argv": show(&expected_argv), "observed_argv": show(&d.argv)});
	if d.argv != expected_argv {
		let class = if d.argv.len() != expected_argv.len() { "count" } else { "content" };
		rep.violation(
			&format!("C18/argv/{}/{class}", if shell_mode { "shell" } else { "exec" }),
			&format!("child received {:?}, configured {:?}", show(&d.argv), show(&expected_argv)),
			wit(),
		);
	}
	let (my_pgid, my_sid) = unsafe { (libc::getpgrp(), libc::getsid(0)) };
	match wrap {
		0 => {
			if d.pgid != my_pgid || d.sid != my_sid {
				rep.violation("C18/wrap/plain-not-in-our-group", &format!("plain spawn: child pgid {} sid {} (ours {my_pgid} {my_sid})", d.pgid, d.sid), wit());
			}
		}
		1 => {
			if d.pgid != d.pid || d.pgid == my_pgid {
				rep.violation("C18/wrap/grouped-not-leader", &format!("grouped spawn: child pid {} pgid {} (ours {my_pgid})", d.pid, d.pgid), wit());
			}
		}
		_ => {
			if d.sid != d.pid {
				rep.violation("C18/wrap/session-not-leader", &format!("session spawn: child pid {} sid {}", d.pid, d.sid), wit());
			}
		}
	}
	let got_env = d.env.iter().find(|(k, _)| k == "VERIF_HOOK_VALUE").map(|(_, v)| v.clone());
	if hook_env && got_env.as_deref() != Some(marker.as_str()) {
		rep.violation(&format!("C18/hook/env-not-visible/{path_name}"), &format!("spawn hook set VERIF_HOOK_VALUE={marker:?}, the process spawned by {path_name} saw {got_env:?}"), wit());
	}
	if !hook_env && got_env.is_some() {
		rep.violation("C18/hook/stale-env", "child saw a hook environment variable that this spawn's hook did not set", wit());
	}
	if hook_cwd && d.cwd != workdir.display().to_string().into_bytes() {
		rep.violation(&format!("C18/hook/cwd-not-visible/{path_name}"), &format!("spawn hook set the working directory to {workdir:?}, the process spawned by {path_name} ran in {:?}", String::from_utf8_lossy(&d.cwd)), wit());
	}
	if k < 2 && di == 0 {
		rep.sample(wit());
	}
	}
	std::fs::remove_file(&log).ok();
}
