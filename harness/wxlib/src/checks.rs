//! Offline checkers over a recorded `History` (C01 conservation, C02 debounce, C15 error routing).

use std::{collections::BTreeMap, time::Duration};

use watchexec_events::Priority;

use crate::synth::{index, ErrBehaviour, History, Kind, Synth, Verdict};

#[derive(Debug, Clone)]
pub struct Finding {
	pub sig: String,
	pub what: String,
	/// rests on a real-time upper bound: must be confirmed by repetition before it is a violation
	pub needs_confirmation: bool,
	/// largest heartbeat gap (ms) under which a run counts as healthy for this finding
	pub health_ms: u64,
}

fn f(sig: &str, what: String, confirm: bool) -> Finding {
	// tight real-time rules tolerate only a small scheduling gap, cap-based ones a large one
	let health_ms = if sig.contains("window-split") {
		5
	} else if sig.contains("urgent-debounced") {
		20
	} else if sig.contains("urgent-late") {
		100
	} else {
		500
	};
	Finding { sig: sig.to_string(), what, needs_confirmation: confirm, health_ms }
}

pub fn healthy(h: &History, limit_ms: u64) -> bool {
	h.hb_max_gap < Duration::from_millis(limit_ms)
}

/// C01: every accepted event (pass, urgent or empty) in exactly one batch; rejected / erroring never; no empty batch.
pub fn c01(h: &History, _s: &Synth) -> Vec<Finding> {
	let mut out = vec![];
	let idx = index(h);
	let mut count: BTreeMap<u64, usize> = BTreeMap::new();
	for b in &h.batches {
		if b.empty_batch {
			out.push(f("C01/empty-batch", "the action handler was invoked with an empty batch".into(), false));
		}
		for id in &b.ids {
			*count.entry(*id).or_default() += 1;
		}
	}
	for (id, n) in &count {
		let Some(e) = idx.get(id) else { continue }; // the quit event
		let expected = e.ok && (e.prio == Priority::Urgent || e.kind == Kind::Empty || e.verdict == Verdict::Pass);
		if !expected {
			let why = if !e.ok { "whose send failed".to_string() } else { format!("with filter verdict {:?}", e.verdict) };
			out.push(f(
				&format!("C01/delivered-{}", if !e.ok { "unsent" } else if e.verdict == Verdict::Error { "erroring" } else { "rejected" }),
				format!("event #{id} ({:?}, {:?}) {why} was handed to the action handler", e.prio, e.kind),
				false,
			));
		} else if *n > 1 {
			out.push(f("C01/duplicate", format!("event #{id} ({:?}, {:?}) was delivered in {n} batches", e.prio, e.kind), false));
		}
	}
	if h.producers_stuck {
		out.push(f("C01/stalled", "producers stayed blocked on a full event queue for 12 s: the action worker stopped taking events".into(), true));
	}
	let main_alive_to_quit = h.quit_sent_at.is_some();
	for e in &h.sent {
		let expected = e.ok && (e.prio == Priority::Urgent || e.kind == Kind::Empty || e.verdict == Verdict::Pass);
		if expected && !count.contains_key(&e.id) && main_alive_to_quit {
			let class = if e.prio == Priority::Urgent { "urgent" } else if e.kind == Kind::Empty { "empty" } else { "passing" };
			// the driver waited (bounded progress) for this delivery; needs a healthy machine to count
			out.push(f(
				&format!("C01/lost/{class}"),
				format!("event #{} ({:?}, {:?}, verdict {:?}) was accepted by send_event but never reached the action handler", e.id, e.prio, e.kind, e.verdict),
				true,
			));
		}
	}
	out
}

fn throttle_lower_bound(h: &History, t_first: u64, t_enter: u64) -> u64 {
	// values possibly in effect in [t_first, t_enter]
	let mut vals: Vec<u64> = vec![];
	let mut last_before: Option<u64> = None;
	for (t, v) in &h.throttle_log {
		if *t <= t_first {
			last_before = Some(*v);
		} else if *t <= t_enter {
			vals.push(*v);
		}
	}
	if let Some(v) = last_before {
		vals.push(v);
	}
	vals.into_iter().min().unwrap_or(0)
}

/// C02: lower bound of the window, one action per window, urgent flush, no starvation.
pub fn c02(h: &History, s: &Synth) -> Vec<Finding> {
	let mut out = vec![];
	let idx = index(h);
	let mut prev_exit: Option<u64> = None;
	for (bi, b) in h.batches.iter().enumerate() {
		let members: Vec<_> = b.ids.iter().filter_map(|id| idx.get(id)).collect();
		let has_urgent = members.iter().any(|e| e.prio == Priority::Urgent) || b.ids.iter().any(|id| !idx.contains_key(id));
		if !has_urgent && !members.is_empty() {
			let t_first = members.iter().map(|e| e.t_before).min().unwrap();
			let theta = throttle_lower_bound(h, t_first, b.t_enter).saturating_mul(1_000_000);
			if b.t_enter < t_first.saturating_add(theta) {
				out.push(f(
					"C02/early/before-window-elapsed",
					format!(
						"batch #{bi} {:?} handed over {:.3} ms after its first event was sent, throttle is {} ms",
						b.ids,
						(b.t_enter - t_first) as f64 / 1e6,
						theta / 1_000_000
					),
					false,
				));
			}
			if let Some(pe) = prev_exit {
				if b.t_enter < pe.saturating_add(theta) {
					out.push(f(
						"C02/early/second-action-in-window",
						format!(
							"batch #{bi} {:?} handed over {:.3} ms after the previous action returned, throttle is {} ms",
							b.ids,
							(b.t_enter.saturating_sub(pe)) as f64 / 1e6,
							theta / 1_000_000
						),
						false,
					));
				}
			}
		}
		prev_exit = Some(b.t_exit);
	}
	// urgent events are never filtered
	let filtered: std::collections::BTreeSet<u64> = h.filter_calls.iter().map(|c| c.0).collect();
	for e in &h.sent {
		if e.prio == Priority::Urgent && filtered.contains(&e.id) {
			out.push(f("C02/urgent-was-filtered", format!("urgent event #{} was passed to the filterer", e.id), false));
		}
	}
	// urgent latency: delivered within a bounded delay (coarse), together with what was collected
	for e in &h.sent {
		if e.prio == Priority::Urgent && e.ok {
			if let Some(b) = h.batches.iter().find(|b| b.ids.contains(&e.id)) {
				let busy = h.batches.iter().any(|o| o.t_enter < e.t_after && o.t_exit > e.t_before);
				let lat = b.t_enter.saturating_sub(e.t_after);
				if !busy && s.filter_delay_us == 0 && lat > 1_000_000_000 {
					out.push(f("C02/urgent-late", format!("urgent event #{} delivered {:.1} ms after it was sent", e.id, lat as f64 / 1e6), true));
				}
				// an urgent event is not debounced, whether or not a batch is pending: with a long window it must
				// arrive well inside it (half the window is a generous bound; confirmed by repetition)
				let theta = s.throttle_ms.saturating_mul(1_000_000);
				if !busy && s.filter_delay_us == 0 && s.throttle_ms >= 200 && s.throttle_changes.is_empty() && lat > (theta / 2).min(5_000_000_000) {
					out.push(f(
						"C02/urgent-debounced",
						format!("urgent event #{} was delivered {:.1} ms after it was sent: it waited for the {} ms window", e.id, lat as f64 / 1e6, s.throttle_ms),
						true,
					));
				}
			}
		}
	}
	// same window => same batch (theta >= 40 ms, no slow filter): an accepted event fully sent in the first half
	// of a batch's window must not appear in a later batch
	if s.throttle_ms >= 40 && s.filter_delay_us == 0 && s.throttle_changes.is_empty() {
		let theta = s.throttle_ms.saturating_mul(1_000_000);
		for (bi, b) in h.batches.iter().enumerate() {
			let members: Vec<_> = b.ids.iter().filter_map(|id| idx.get(id)).collect();
			if members.is_empty() || members.iter().any(|e| e.prio == Priority::Urgent) {
				continue;
			}
			let t_first = members.iter().map(|e| e.t_before).min().unwrap();
			for later in h.batches.iter().skip(bi + 1) {
				for id in &later.ids {
					if let Some(e) = idx.get(id) {
						if e.prio != Priority::Urgent && e.t_after <= t_first.saturating_add(theta / 2) && e.t_before >= t_first {
							out.push(f(
								"C02/window-split",
								format!(
									"event #{id} was sent {:.1} ms into the window of batch #{bi} (throttle {} ms) but was delivered in a later batch",
									(e.t_after - t_first) as f64 / 1e6,
									s.throttle_ms
								),
								true,
							));
						}
					}
				}
			}
		}
	}
	// no starvation: with a stream of rejected / erroring events running, the pending batch is still delivered
	if s.starve_with.is_some() && h.delivery_wait_timed_out {
		out.push(f(
			&format!("C02/starved-by-{}", if s.starve_with == Some(Verdict::Error) { "erroring-stream" } else { "rejected-stream" }),
			format!(
				"accepted events were not delivered while a stream of {:?} events kept arriving ({} sent); throttle {} ms",
				s.starve_with.unwrap(),
				h.flood_sent,
				s.throttle_ms
			),
			true,
		));
	}
	out
}

/// C15: filter errors reach the error handler exactly once, affect only their event, and stop nothing unless elevated.
pub fn c15(h: &History, s: &Synth) -> Vec<Finding> {
	let mut out = vec![];
	let mut per_id: BTreeMap<u64, usize> = BTreeMap::new();
	for e in &h.errors {
		if let Some(id) = e.filter_id {
			*per_id.entry(id).or_default() += 1;
		} else {
			out.push(f("C15/unexpected-runtime-error", format!("unexpected runtime error reached the handler: {}", e.text.chars().take(200).collect::<String>()), false));
		}
	}
	for (id, n) in &per_id {
		if *n > 1 {
			out.push(f("C15/error-reported-twice", format!("the filter error of event #{id} reached the error handler {n} times"), false));
		}
	}
	let terminating = matches!(s.err, ErrBehaviour::ElevateNth(_) | ErrBehaviour::CriticalNth(_));
	let nerr = h.errors.len();
	let threshold = match s.err {
		ErrBehaviour::ElevateNth(k) | ErrBehaviour::CriticalNth(k) => Some(k),
		_ => None,
	};
	let terminated = terminating && threshold.map_or(false, |k| nerr > k);
	if !terminated {
		// every error the filter actually raised (the filter was called on the event: an event still queued when the urgent
		// quit event overtakes it is never filtered, so no error exists) must be reported exactly once
		// ... and it was raised well before the quit: the error hook is a task of its own, and the shutdown that follows a
		// quit request cancels it, so an error raised as the quit arrives may legitimately never be handled
		let quit_at = h.quit_sent_at.unwrap_or(0);
		let filtered: std::collections::BTreeSet<u64> = h.filter_calls.iter().filter(|c| c.1 + 100_000_000 < quit_at).map(|c| c.0).collect();
		for e in &h.sent {
			if e.ok && e.verdict == Verdict::Error && e.prio != Priority::Urgent && e.kind != Kind::Empty && !per_id.contains_key(&e.id) && filtered.contains(&e.id) && h.quit_sent_at.is_some() && !h.delivery_wait_timed_out {
				out.push(f("C15/error-not-reported", format!("the filter error of event #{} never reached the error handler", e.id), true));
			}
		}
		match &h.main_result {
			Some(Ok(())) => {
				if let (Some(q), Some(d)) = (h.quit_sent_at, h.main_done_at) {
					if d < q {
						out.push(f("C15/main-ended-before-quit", "the main task ended before a quit was requested although no error was elevated".into(), false));
					}
				}
			}
			Some(Err(e)) => out.push(f("C15/main-failed-without-elevation", format!("the main task ended with {e} although no error was elevated"), false)),
			None => out.push(f("C15/main-never-ended", "the main task did not end within 10 s of the quit request".into(), true)),
		}
	} else {
		let k = threshold.unwrap();
		let culprit = h.errors.get(k);
		match (&h.main_result, &s.err) {
			(Some(Err(e)), ErrBehaviour::ElevateNth(_)) => {
				let want = culprit.and_then(|c| c.filter_id).map(|id| format!("verif-filter-error id={id}"));
				if !e.contains("too serious") || want.as_ref().map_or(false, |w| !e.contains(w)) {
					out.push(f("C15/elevated-wrong-error", format!("error #{k} was elevated but the main task ended with {e}"), false));
				}
			}
			(Some(Err(e)), ErrBehaviour::CriticalNth(_)) => {
				if !e.contains(&format!("verif-critical after error #{k}")) {
					out.push(f("C15/critical-wrong-error", format!("a critical error was raised at error #{k} but the main task ended with {e}"), false));
				}
			}
			(Some(Ok(())), _) => out.push(f(
				&format!("C15/{}-ignored", if matches!(s.err, ErrBehaviour::ElevateNth(_)) { "elevation" } else { "critical" }),
				format!("the error handler raised a critical error at error #{k} but the main task ended with Ok(())"),
				false,
			)),
			(None, _) => out.push(f("C15/main-never-ended-after-critical", "the main task did not end after a critical error".into(), true)),
			_ => {}
		}
	}
	if h.producers_stuck {
		out.push(f(
			"C15/stalled-after-error",
			"producers stayed blocked on a full event queue for 12 s: event processing stopped after a runtime error".into(),
			true,
		));
	}
	if h.replace_started.is_some() && h.replace_done.is_none() {
		out.push(f(
			"C15/handler-replacement/never-returns",
			"the error handler called config.on_error() from inside its own invocation and never came back (deadlock)".into(),
			true,
		));
	}
	if let ErrBehaviour::ReplaceSelf(k) = s.err {
		for (i, e) in h.errors.iter().enumerate() {
			let want = u32::from(i > k);
			if e.handler_version != want {
				out.push(f(
					"C15/handler-replacement",
					format!("error #{i} was handled by handler version {} (replacement was requested from inside invocation #{k})", e.handler_version),
					false,
				));
			}
		}
	}
	out
}
