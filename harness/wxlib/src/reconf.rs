//! C01 under run-time reconfiguration: the filterer and the action handler are replaced while events flow.
//!
//! Every filterer generation `g` has its own verdict for every event (`(id + g) % 3`: pass, pass, reject; one id in
//! eight errs under odd generations), so the observed outcome says which generation judged the event. An event whose
//! `send_event` started after `config.filterer(..)` returned must be judged by that generation or a later one — never by
//! an older one. Rounds that wait for quiescence before the replacement make the generation definite; rounds that
//! replace in the middle of a window exercise the hand-over itself (any generation from the one current at the send
//! onwards is accepted). Handlers are replaced the same way and all record into one log: exactly-once must hold across
//! handler generations.

use std::{
	collections::{BTreeMap, BTreeSet, HashMap},
	sync::{
		atomic::{AtomicU64, Ordering},
		Arc, Mutex,
	},
	time::Duration,
};

use serde_json::json;
use vcommon::{mono_ns, Report, Rng, ShardArgs};
use watchexec::{error::RuntimeError, filter::Filterer, Config, Watchexec};
use watchexec_events::{Event, FileType, Priority, Source, Tag};

#[derive(Debug)]
struct GenFilter {
	gen: u64,
	calls: Arc<Mutex<Vec<(u64, u64)>>>,
}

#[derive(Clone, Copy, Debug, PartialEq)]
enum V {
	Pass,
	Reject,
	Error,
}

fn verdict(gen: u64, id: u64) -> V {
	if gen % 2 == 1 && id % 8 == 5 {
		return V::Error;
	}
	if (id + gen) % 3 == 2 {
		V::Reject
	} else {
		V::Pass
	}
}

fn id_of(ev: &Event) -> Option<u64> {
	ev.metadata.get("verif-id").and_then(|v| v.first()).and_then(|s| s.parse().ok())
}

impl Filterer for GenFilter {
	fn check_event(&self, event: &Event, _priority: Priority) -> Result<bool, RuntimeError> {
		let id = id_of(event).unwrap_or(u64::MAX);
		self.calls.lock().unwrap().push((id, self.gen));
		match verdict(self.gen, id) {
			V::Pass => Ok(true),
			V::Reject => Ok(false),
			V::Error => Err(RuntimeError::Filterer { kind: "verif", err: format!("verif-gen-filter-error id={id}").into() }),
		}
	}
}

fn event(id: u64, quit: bool) -> Event {
	let mut metadata = HashMap::new();
	metadata.insert("verif-id".to_string(), vec![id.to_string()]);
	if quit {
		metadata.insert("verif-quit".to_string(), vec!["1".into()]);
	}
	Event {
		tags: vec![Tag::Source(Source::Filesystem), Tag::Path { path: format!("/verif/reconf/{id}").into(), file_type: Some(FileType::File) }],
		metadata,
	}
}

struct Log {
	/// (event id, handler generation, batch number)
	delivered: Mutex<Vec<(u64, u64, u64)>>,
	batches: AtomicU64,
	empty_batches: AtomicU64,
}

fn install_handler(config: &Config, log: &Arc<Log>, hgen: u64, asynchronous: bool) {
	let l = log.clone();
	if asynchronous {
		config.on_action_async(move |mut action| {
			let l = l.clone();
			Box::new(async move {
				record(&l, hgen, &mut action);
				tokio::task::yield_now().await;
				action
			})
		});
	} else {
		config.on_action(move |mut action| {
			record(&l, hgen, &mut action);
			action
		});
	}
}

fn record(l: &Arc<Log>, hgen: u64, action: &mut watchexec::action::ActionHandler) {
	let b = l.batches.fetch_add(1, Ordering::SeqCst);
	if action.events.is_empty() {
		l.empty_batches.fetch_add(1, Ordering::SeqCst);
	}
	let mut quit = false;
	{
		let mut d = l.delivered.lock().unwrap();
		for ev in action.events.iter() {
			if ev.metadata.contains_key("verif-quit") {
				quit = true;
			} else if let Some(id) = id_of(ev) {
				d.push((id, hgen, b));
			}
		}
	}
	if quit {
		action.quit();
	}
}

pub fn run_one(args: &ShardArgs, rng: &mut Rng, rep: &mut Report, k: usize) {
	let threads = 2 + rng.usize(3);
	let throttle = *rng.pick(&[0u64, 1, 5, 20]);
	let rounds = 3 + rng.usize(5);
	let async_handler = rng.chance(1, 2);
	let seed = rng.next_u64();
	let rt = tokio::runtime::Builder::new_multi_thread().worker_threads(threads).enable_all().build().expect("runtime");
	let _ = args;
	let hb = vcommon::Heartbeat::start();
	let out = rt.block_on(async move {
		let mut rng = Rng::new(seed);
		let log = Arc::new(Log { delivered: Mutex::new(vec![]), batches: AtomicU64::new(0), empty_batches: AtomicU64::new(0) });
		let calls = Arc::new(Mutex::new(vec![]));
		let errors = Arc::new(Mutex::new(Vec::<String>::new()));
		let mut config = Config::default();
		config.throttle(Duration::from_millis(throttle));
		config.filterer(GenFilter { gen: 0, calls: calls.clone() });
		{
			let e = errors.clone();
			config.on_error(move |hook: watchexec::ErrorHook| {
				e.lock().unwrap().push(hook.error.to_string());
			});
		}
		install_handler(&config, &log, 0, async_handler);
		let wx = Watchexec::with_config(config).expect("watchexec");
		let main = tokio::spawn(wx.main());
		// (id, generation current when the send started, generation current at the end, definite)
		let mut sent: Vec<(u64, u64, bool)> = vec![];
		let mut fgen = 0u64;
		let mut hgen = 0u64;
		let mut next_id = 1u64;
		let mut swaps_idle = 0u64;
		let mut swaps_mid = 0u64;
		let mut handler_swaps = 0u64;
		let mut stuck = false;
		for _round in 0..rounds {
			let mid_window = rng.chance(1, 3);
			if mid_window {
				// something is already collected (or queued) when the replacement happens
				for _ in 0..(1 + rng.usize(3)) {
					let id = next_id;
					next_id += 1;
					let ok = wx.send_event(event(id, false), *rng.pick(&[Priority::Low, Priority::Normal, Priority::High])).await.is_ok();
					if ok {
						sent.push((id, fgen, false));
					}
				}
				swaps_mid += 1;
			} else {
				// quiescence: everything sent so far was judged (the filter was called on it) and a window has passed
				let t0 = std::time::Instant::now();
				loop {
					let judged: BTreeSet<u64> = calls.lock().unwrap().iter().map(|c| c.0).collect();
					if sent.iter().all(|s| judged.contains(&s.0)) {
						break;
					}
					if t0.elapsed() > Duration::from_secs(10) {
						stuck = true;
						break;
					}
					tokio::time::sleep(Duration::from_millis(1)).await;
				}
				tokio::time::sleep(Duration::from_millis(2 * throttle + 5)).await;
				swaps_idle += 1;
			}
			fgen += 1;
			wx.config.filterer(GenFilter { gen: fgen, calls: calls.clone() });
			if rng.chance(1, 3) {
				hgen += 1;
				handler_swaps += 1;
				install_handler(&wx.config, &log, hgen, rng.chance(1, 2));
			}
			for _ in 0..(1 + rng.usize(5)) {
				let id = next_id;
				next_id += 1;
				let ok = wx.send_event(event(id, false), *rng.pick(&[Priority::Low, Priority::Normal, Priority::High])).await.is_ok();
				if ok {
					sent.push((id, fgen, !mid_window));
				}
				match rng.below(3) {
					0 => {}
					1 => tokio::task::yield_now().await,
					_ => tokio::time::sleep(Duration::from_micros(rng.below(throttle * 1500 + 50))).await,
				}
			}
		}
		// settle: every event judged, one more window, then quit
		let t0 = std::time::Instant::now();
		loop {
			let judged: BTreeSet<u64> = calls.lock().unwrap().iter().map(|c| c.0).collect();
			if sent.iter().all(|s| judged.contains(&s.0)) {
				break;
			}
			if t0.elapsed() > Duration::from_secs(10) {
				stuck = true;
				break;
			}
			tokio::time::sleep(Duration::from_millis(1)).await;
		}
		tokio::time::sleep(Duration::from_millis(2 * throttle + 30)).await;
		let _ = wx.send_event(event(0, true), Priority::Urgent).await;
		let ended = tokio::time::timeout(Duration::from_secs(10), main).await.is_ok();
		let calls = calls.lock().unwrap().clone();
		let delivered = log.delivered.lock().unwrap().clone();
		let nerrors = errors.lock().unwrap().len();
		(sent, fgen, calls, delivered, log.empty_batches.load(Ordering::SeqCst), stuck, ended, swaps_idle, swaps_mid, handler_swaps, nerrors)
	});
	rt.shutdown_timeout(Duration::from_millis(200));
	let (sent, last_gen, calls, delivered, empty_batches, stuck, ended, swaps_idle, swaps_mid, handler_swaps, nerrors) = out;
	let gap = hb.take_max_gap();
	rep.eval();
	rep.count("reconf_scenarios", 1);
	rep.count("reconf_filterer_replacements_at_quiescence", swaps_idle);
	rep.count("reconf_filterer_replacements_inside_a_window", swaps_mid);
	rep.count("reconf_handler_replacements", handler_swaps);
	rep.count("reconf_events_sent", sent.len() as u64);
	rep.count("reconf_filter_errors_reported", nerrors as u64);
	if stuck || !ended || gap > Duration::from_millis(500) {
		rep.inconclusive(if stuck { "reconf-not-every-event-was-judged-within-10s" } else if !ended { "reconf-main-did-not-end" } else { "machine-stalled" });
		if !(stuck || !ended) {
			return;
		}
	}
	let wit = |extra: serde_json::Value| {
		json!({"scenario": {"family": "reconf", "k": k, "seed": seed, "throttle_ms": throttle, "threads": threads, "rounds": rounds},
			"sent": sent.iter().map(|s| json!([s.0, s.1, s.2])).collect::<Vec<_>>(),
			"filter_calls": calls.iter().map(|c| json!([c.0, c.1])).collect::<Vec<_>>(),
			"delivered": delivered.iter().map(|d| json!([d.0, d.1, d.2])).collect::<Vec<_>>(), "detail": extra})
	};
	if empty_batches > 0 {
		rep.violation("C01/reconf/empty-batch", "the handler was invoked with an empty batch", wit(json!({})));
	}
	let mut count: BTreeMap<u64, usize> = BTreeMap::new();
	for d in &delivered {
		*count.entry(d.0).or_default() += 1;
	}
	let mut judged_by: BTreeMap<u64, Vec<u64>> = BTreeMap::new();
	for c in &calls {
		judged_by.entry(c.0).or_default().push(c.1);
	}
	let mut definite = 0u64;
	for (id, gen_at_send, is_definite) in &sent {
		let n = count.get(id).copied().unwrap_or(0);
		if n > 1 {
			rep.violation("C01/reconf/duplicate", &format!("event #{id} was handed to the handler {n} times across handler replacements"), wit(json!({"id": id})));
			continue;
		}
		let gens = judged_by.get(id).cloned().unwrap_or_default();
		if gens.len() > 1 {
			rep.violation("C01/reconf/filtered-twice", &format!("event #{id} was passed to the filterer {} times (generations {gens:?})", gens.len()), wit(json!({"id": id})));
		}
		if let Some(g) = gens.first() {
			if g < gen_at_send {
				rep.violation(
					"C01/reconf/stale-filterer",
					&format!("event #{id} was sent after filterer generation {gen_at_send} had been installed but was judged by generation {g}"),
					wit(json!({"id": id})),
				);
				continue;
			}
		} else if !stuck {
			continue;
		}
		// allowed outcomes: the verdict of any generation from the one current at the send to the last
		let allowed: BTreeSet<bool> = (*gen_at_send..=last_gen).map(|g| verdict(g, *id) == V::Pass).collect();
		if *is_definite {
			definite += 1;
		}
		let was = n == 1;
		if !allowed.contains(&was) {
			rep.violation(
				if was { "C01/reconf/delivered-rejected" } else { "C01/reconf/lost-passing" },
				&format!(
					"event #{id} (sent under filterer generation {gen_at_send}, judged by {:?}) was {} although every generation from {gen_at_send} on says {}",
					gens,
					if was { "delivered" } else { "not delivered" },
					if was { "reject / error" } else { "pass" }
				),
				wit(json!({"id": id})),
			);
		} else if let Some(g) = gens.first() {
			// the generation that judged decides
			let want = verdict(*g, *id) == V::Pass;
			if want != was {
				rep.violation(
					if was { "C01/reconf/delivered-rejected" } else { "C01/reconf/lost-passing" },
					&format!("event #{id} was judged {:?} by filterer generation {g} but was {}", verdict(*g, *id), if was { "delivered" } else { "not delivered" }),
					wit(json!({"id": id})),
				);
			}
		}
	}
	rep.count("reconf_events_with_a_definite_generation", definite);
	let mut h = vcommon::Fnv::default();
	h.u64(swaps_idle).u64(swaps_mid).u64(handler_swaps).u64(delivered.len().min(30) as u64);
	rep.nontrivial(h.finish());
	let _ = mono_ns();
}
