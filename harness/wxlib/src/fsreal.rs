//! C01 with the real event sources: filesystem operations under the real native / poll watchers
//! (wrapped through hook H1 so that every notify event carries a unique id), process signals and
//! keyboard EOF. Set oracle: every stamped notify event handed to the fs worker's callback is
//! delivered to the action handler in exactly one batch; every operation on a watched path is
//! mentioned by at least one delivered event (native watcher).

use std::{
	collections::{BTreeMap, BTreeSet},
	path::{Path, PathBuf},
	sync::{
		atomic::{AtomicU64, Ordering},
		Arc, Mutex,
	},
	time::Duration,
};

use notify::{Config as NConfig, RecursiveMode, Watcher as _, WatcherKind};
use vcommon::{json, mono_ns, Fnv, Heartbeat, Report, Rng, ShardArgs};
use watchexec::{sources::fs::Watcher, Config, Watchexec};
use watchexec_events::{Event, Keyboard, Priority, Source, Tag};
use watchexec_signals::Signal;

struct Wrap {
	inner: Box<dyn notify::Watcher + Send>,
	watched: Arc<Mutex<Vec<String>>>,
}

impl notify::Watcher for Wrap {
	fn new<F: notify::EventHandler>(_h: F, _c: NConfig) -> notify::Result<Self>
	where
		Self: Sized,
	{
		Err(notify::Error::generic("built by the factory only"))
	}
	fn watch(&mut self, path: &Path, mode: RecursiveMode) -> notify::Result<()> {
		let r = self.inner.watch(path, mode);
		if r.is_ok() {
			self.watched.lock().unwrap().push(path.display().to_string());
		}
		r
	}
	fn unwatch(&mut self, path: &Path) -> notify::Result<()> {
		self.inner.unwatch(path)
	}
	fn kind() -> WatcherKind
	where
		Self: Sized,
	{
		WatcherKind::NullWatcher
	}
}

struct Shared {
	stamped: Mutex<Vec<(u64, Vec<PathBuf>, String)>>,
	next: AtomicU64,
	batches: Mutex<Vec<Vec<Event>>>,
	errors: Mutex<Vec<String>>,
}

fn quit_event() -> Event {
	let mut md = std::collections::HashMap::new();
	md.insert("verif-quit".to_string(), vec!["1".into()]);
	Event { tags: vec![], metadata: md }
}

pub fn run_one(args: &ShardArgs, rng: &mut Rng, rep: &mut Report, i: usize) {
	if i % 4 == 3 {
		let b = rng.chance(2, 3);
		let n = 1 + rng.usize(4);
		if b {
			rep.count("keyboard_eof_through_a_pipe_after_other_config_changes", 1);
		}
		signals_and_keyboard(rep, b, n);
	} else {
		fs_scenario(args, rng, rep, i);
	}
}

fn fs_scenario(args: &ShardArgs, rng: &mut Rng, rep: &mut Report, i: usize) {
	let poll = i % 2 == 1;
	let interval = Duration::from_millis(40);
	let small_queue = i % 5 == 4;
	let root = args.scratch.join(format!("c01fs-{i}"));
	std::fs::remove_dir_all(&root).ok();
	std::fs::create_dir_all(root.join("w/pre")).unwrap();
	std::fs::write(root.join("w/pre/existing.txt"), "x").unwrap();
	let root = root.canonicalize().unwrap();
	let watched_dir = root.join("w");

	let shared = Arc::new(Shared { stamped: Mutex::new(vec![]), next: AtomicU64::new(1), batches: Mutex::new(vec![]), errors: Mutex::new(vec![]) });
	let watched = Arc::new(Mutex::new(vec![]));
	{
		let sh = shared.clone();
		let watched = watched.clone();
		watchexec::sources::fs::verif::set_factory(Some(Arc::new(move |kind, mut handler| {
			let sh = sh.clone();
			let stamp = move |res: notify::Result<notify::Event>| {
				let res = res.map(|mut ev| {
					let id = sh.next.fetch_add(1, Ordering::SeqCst);
					ev.attrs.set_info(&id.to_string());
					sh.stamped.lock().unwrap().push((id, ev.paths.clone(), format!("{:?}", ev.kind)));
					ev
				});
				handler(res);
			};
			let inner: Box<dyn notify::Watcher + Send> = match kind {
				Watcher::Poll(d) => Box::new(notify::PollWatcher::new(stamp, NConfig::default().with_poll_interval(d)).map_err(|e| watchexec::error::CriticalError::External(e.to_string().into()))?),
				_ => Box::new(notify::RecommendedWatcher::new(stamp, NConfig::default()).map_err(|e| watchexec::error::CriticalError::External(e.to_string().into()))?),
			};
			Ok(Box::new(Wrap { inner, watched: watched.clone() }) as Box<dyn notify::Watcher + Send>)
		})));
	}

	let rt = tokio::runtime::Builder::new_multi_thread().worker_threads(3).enable_all().build().expect("runtime");
	let hb = Heartbeat::start();
	let throttle = *rng.pick(&[0u64, 5, 20]);
	let ops_done: Vec<(String, PathBuf)> = rt.block_on(async {
		let mut config = Config::default();
		if small_queue {
			config.event_channel_size = 2;
		}
		config.throttle(Duration::from_millis(throttle));
		if poll {
			config.file_watcher(Watcher::Poll(interval));
		}
		let sh = shared.clone();
		let slow = small_queue;
		config.on_action(move |mut action| {
			if action.events.iter().any(|e| e.metadata.contains_key("verif-quit")) {
				action.quit();
			}
			sh.batches.lock().unwrap().push(action.events.to_vec());
			if slow {
				std::thread::sleep(Duration::from_millis(3));
			}
			action
		});
		let sh = shared.clone();
		config.on_error(move |hook: watchexec::ErrorHook| {
			sh.errors.lock().unwrap().push(format!("{:?}", hook.error));
		});
		let wx = Watchexec::with_config(config).expect("with_config");
		let main = wx.main();
		wx.config.pathset([watched_dir.clone()]);
		// readiness: the watch() call on the directory has returned
		let t0 = std::time::Instant::now();
		while watched.lock().unwrap().is_empty() && t0.elapsed() < Duration::from_secs(5) {
			tokio::time::sleep(Duration::from_millis(2)).await;
		}
		if poll {
			tokio::time::sleep(interval * 3).await;
		}
		// operations
		let mut ops: Vec<(String, PathBuf)> = vec![];
		let mut files: Vec<PathBuf> = vec![watched_dir.join("pre/existing.txt")];
		let mut dirs: Vec<PathBuf> = vec![watched_dir.clone(), watched_dir.join("pre")];
		let nops = 6 + rng.usize(10);
		for k in 0..nops {
			let d = rng.pick(&dirs).clone();
			match rng.below(7) {
				0 | 1 => {
					let f = d.join(format!("f{k}.txt"));
					std::fs::write(&f, format!("{k}")).ok();
					files.push(f.clone());
					ops.push(("create".into(), f));
				}
				2 => {
					let f = rng.pick(&files).clone();
					if f.exists() {
						std::fs::write(&f, format!("more {k}")).ok();
						ops.push(("write".into(), f));
					}
				}
				3 if rng.chance(1, 3) => {
					// across the edge of the watched tree: out of it (only the "from" half is reported) or into it
					let outside = root.join("outside");
					std::fs::create_dir_all(&outside).ok();
					if rng.chance(1, 2) {
						let f = rng.pick(&files).clone();
						if f.exists() && std::fs::rename(&f, outside.join(format!("out{k}.txt"))).is_ok() {
							ops.push(("move-out".into(), f));
						}
					} else {
						let src = outside.join(format!("in{k}.txt"));
						let to = d.join(format!("in{k}.txt"));
						if std::fs::write(&src, "x").is_ok() && std::fs::rename(&src, &to).is_ok() {
							files.push(to.clone());
							ops.push(("move-in".into(), to));
						}
					}
				}
				3 => {
					let f = rng.pick(&files).clone();
					if f.exists() {
						let to = d.join(format!("r{k}.txt"));
						if std::fs::rename(&f, &to).is_ok() {
							files.push(to.clone());
							ops.push(("rename-from".into(), f));
							ops.push(("rename-to".into(), to));
						}
					}
				}
				4 => {
					let f = rng.pick(&files).clone();
					if f.exists() && std::fs::remove_file(&f).is_ok() {
						ops.push(("remove".into(), f));
					}
				}
				5 if rng.chance(1, 2) => {
					// symbolic links: dangling, to a file, and a cycle (stat fails with ELOOP)
					let l = d.join(format!("l{k}"));
					let target: PathBuf = match rng.below(3) {
						0 => PathBuf::from("does-not-exist"),
						1 => l.clone(),
						_ => rng.pick(&files).clone(),
					};
					if std::os::unix::fs::symlink(&target, &l).is_ok() {
						ops.push(("symlink".into(), l));
					}
				}
				5 => {
					let nd = d.join(format!("d{k}/nested"));
					if std::fs::create_dir_all(&nd).is_ok() {
						dirs.push(nd.parent().unwrap().to_path_buf());
						ops.push(("mkdir".into(), nd.parent().unwrap().to_path_buf()));
					}
				}
				_ => {
					if dirs.len() > 2 {
						let victim = dirs.pop().unwrap();
						if victim != watched_dir && std::fs::remove_dir_all(&victim).is_ok() {
							files.retain(|f| !f.starts_with(&victim));
							dirs.retain(|x| !x.starts_with(&victim));
							ops.push(("rm-r".into(), victim));
						}
					}
				}
			}
			if poll {
				tokio::time::sleep(interval * 2 + Duration::from_millis(10)).await;
			} else if rng.chance(1, 2) {
				tokio::time::sleep(Duration::from_millis(rng.below(8))).await;
			}
		}
		// quiescence: the stream of stamped events has stopped, then everything stamped has been delivered
		let settle = if poll { interval * 4 } else { Duration::from_millis(120) };
		let mut last = 0;
		let mut since = std::time::Instant::now();
		let t1 = std::time::Instant::now();
		while t1.elapsed() < Duration::from_secs(8) {
			let n = shared.stamped.lock().unwrap().len();
			if n != last {
				last = n;
				since = std::time::Instant::now();
			} else if since.elapsed() > settle {
				break;
			}
			tokio::time::sleep(Duration::from_millis(5)).await;
		}
		let t2 = std::time::Instant::now();
		while t2.elapsed() < Duration::from_secs(10) {
			let stamped: BTreeSet<u64> = shared.stamped.lock().unwrap().iter().map(|s| s.0).collect();
			let delivered: BTreeSet<u64> = delivered_ids(&shared.batches.lock().unwrap()).into_keys().collect();
			if stamped.is_subset(&delivered) || small_queue {
				break;
			}
			tokio::time::sleep(Duration::from_millis(5)).await;
		}
		tokio::time::sleep(Duration::from_millis(2 * throttle + 30)).await;
		wx.send_event(quit_event(), Priority::Urgent).await.ok();
		tokio::time::timeout(Duration::from_secs(10), main).await.ok();
		ops
	});
	watchexec::sources::fs::verif::set_factory(None);
	rt.shutdown_timeout(Duration::from_millis(200));
	let gap = hb.take_max_gap();
	drop(hb);

	rep.eval();
	let stamped = shared.stamped.lock().unwrap().clone();
	let batches = shared.batches.lock().unwrap().clone();
	let delivered = delivered_ids(&batches);
	rep.count("fs_notify_events_stamped", stamped.len() as u64);
	rep.count("fs_events_delivered", delivered.values().sum::<usize>() as u64);
	rep.count("fs_operations", ops_done.len() as u64);
	rep.count("fs_moves_across_the_edge_of_the_watched_tree", ops_done.iter().filter(|(o, _)| o.starts_with("move-")).count() as u64);
	rep.count(if poll { "fs_scenarios_poll" } else { "fs_scenarios_native" }, 1);
	let mut h = Fnv::default();
	for (_, _, k) in &stamped {
		h.str(k);
	}
	if stamped.len() >= 2 {
		rep.nontrivial(h.finish());
	}
	let wit = || {
		json!({"watcher": if poll { "poll" } else { "native" }, "throttle_ms": throttle, "small_queue": small_queue,
			"ops": ops_done.iter().map(|(o, p)| format!("{o} {}", p.strip_prefix(&root).unwrap_or(p).display())).collect::<Vec<_>>(),
			"stamped": stamped.iter().take(40).map(|(id, p, k)| format!("#{id} {k} {:?}", p.iter().map(|p| p.strip_prefix(&root).unwrap_or(p).display().to_string()).collect::<Vec<_>>())).collect::<Vec<_>>(),
			"errors": shared.errors.lock().unwrap().iter().take(5).collect::<Vec<_>>() })
	};
	for (id, n) in &delivered {
		if *n > 1 {
			rep.violation("C01/fs/duplicate", &format!("notify event #{id} was delivered in {n} batches"), wit());
		}
		if !stamped.iter().any(|s| s.0 == *id) {
			rep.violation("C01/fs/unknown-id", &format!("delivered fs event carries id #{id} that no watcher callback produced"), wit());
		}
	}
	if batches.iter().any(Vec::is_empty) {
		rep.violation("C01/empty-batch", "the action handler was invoked with an empty batch", wit());
	}
	if !small_queue {
		let missing: Vec<u64> = stamped.iter().map(|s| s.0).filter(|id| !delivered.contains_key(id)).collect();
		if !missing.is_empty() {
			// only a reported queue overflow excuses a missing event; any other runtime error does not
			let overflow = shared.errors.lock().unwrap().iter().any(|e| e.contains("EventChannelTrySend"));
			if gap < Duration::from_millis(500) && !overflow {
				rep.violation("C01/fs/lost", &format!("{} notify event(s) accepted by the fs worker never reached the action handler: {missing:?}", missing.len()), wit());
			} else {
				rep.inconclusive("fs-missing-but-machine-stalled-or-queue-errors");
			}
		}
		// path fidelity: the event delivered for a notify event carries exactly that event's paths (normalised);
		// whether the OS / notify produce an event for an operation at all is outside watchexec (blind spot, DESIGN 4/C01)
		let mut by_id: BTreeMap<u64, BTreeSet<PathBuf>> = BTreeMap::new();
		for e in batches.iter().flatten() {
			if let Some(id) = e.metadata.get("file-event-info").and_then(|v| v.first()).and_then(|s| s.parse::<u64>().ok()) {
				by_id.entry(id).or_default().extend(e.paths().map(|(p, _)| p.to_path_buf()));
			}
		}
		for (id, paths, kind) in &stamped {
			if let Some(got) = by_id.get(id) {
				rep.count("fs_events_path_compared", 1);
				let want: BTreeSet<PathBuf> = paths.iter().cloned().collect();
				if *got != want {
					rep.violation(
						"C01/fs/paths-changed",
						&format!("notify event #{id} ({kind}) had paths {want:?} but the delivered event carries {got:?}"),
						wit(),
					);
				}
			}
		}
		let mentioned_by_os: BTreeSet<PathBuf> = stamped.iter().flat_map(|s| s.1.iter().cloned()).collect();
		for (_, p) in &ops_done {
			if !mentioned_by_os.contains(p) {
				rep.count("fs_ops_without_any_notify_event(os-level)", 1);
			}
		}
	}
	if i < 2 {
		rep.sample(wit());
	}
	std::fs::remove_dir_all(&root).ok();
}

fn delivered_ids(batches: &[Vec<Event>]) -> BTreeMap<u64, usize> {
	let mut m = BTreeMap::new();
	for b in batches {
		for e in b {
			if let Some(id) = e.metadata.get("file-event-info").and_then(|v| v.first()).and_then(|s| s.parse::<u64>().ok()) {
				*m.entry(id).or_default() += 1;
			}
		}
	}
	m
}

/// Signals sent to this very process and keyboard EOF (stdin is /dev/null for engine shards).
fn signals_and_keyboard(rep: &mut Report, variant_b: bool, nchanges: usize) {
	use nix::sys::signal::{kill, Signal as NSig};
	use nix::unistd::Pid;
	let rt = tokio::runtime::Builder::new_multi_thread().worker_threads(2).enable_all().build().expect("runtime");
	let hb = Heartbeat::start();
	let batches: Arc<Mutex<Vec<(u64, Vec<Event>)>>> = Arc::new(Mutex::new(vec![]));
	let sent: Vec<(NSig, Signal, Source)> = vec![
		(NSig::SIGHUP, Signal::Hangup, Source::Os),
		(NSig::SIGUSR2, Signal::User2, Source::Os),
		(NSig::SIGQUIT, Signal::Quit, Source::Os),
		(NSig::SIGTERM, Signal::Terminate, Source::Os),
		(NSig::SIGINT, Signal::Interrupt, Source::Keyboard),
		(NSig::SIGUSR1, Signal::User1, Source::Os),
	];
	let mut findings: Vec<(String, String)> = vec![];
	let ok = rt.block_on(async {
		// make the default dispositions harmless before anything is sent (tokio keeps them installed)
		use tokio::signal::unix::{signal, SignalKind};
		let _guards = [
			signal(SignalKind::hangup()),
			signal(SignalKind::interrupt()),
			signal(SignalKind::quit()),
			signal(SignalKind::terminate()),
			signal(SignalKind::user_defined1()),
			signal(SignalKind::user_defined2()),
		];
		let config = Config::default();
		config.throttle(Duration::from_millis(5));
		let b = batches.clone();
		config.on_action(move |mut action| {
			if action.events.iter().any(|e| e.metadata.contains_key("verif-quit")) {
				action.quit();
			}
			b.lock().unwrap().push((mono_ns(), action.events.to_vec()));
			action
		});
		let wx = Watchexec::with_config(config).expect("with_config");
		let main = wx.main();
		let me = Pid::this();
		let count = |b: &Arc<Mutex<Vec<(u64, Vec<Event>)>>>, s: Signal| b.lock().unwrap().iter().flat_map(|x| x.1.iter()).filter(|e| e.signals().any(|x| x == s)).count();
		// readiness: USR1 until the source answers (signals before its listener exists are legitimately not events)
		let t0 = std::time::Instant::now();
		while count(&batches, Signal::User1) == 0 && t0.elapsed() < Duration::from_secs(5) {
			kill(me, NSig::SIGUSR1).ok();
			tokio::time::sleep(Duration::from_millis(5)).await;
		}
		if count(&batches, Signal::User1) == 0 {
			return false;
		}
		tokio::time::sleep(Duration::from_millis(60)).await;
		// events that are equal to one another are still separate events: three empty ones and three identical tagged
		// ones sent back to back (one debounce window) must all reach the handler
		{
			let mut md = std::collections::HashMap::new();
			md.insert("verif-twin".to_string(), vec!["same".to_string()]);
			let twin = Event { tags: vec![Tag::Source(Source::Internal)], metadata: md };
			for _ in 0..3 {
				wx.send_event(Event::default(), Priority::Normal).await.ok();
			}
			for _ in 0..3 {
				wx.send_event(twin.clone(), Priority::Normal).await.ok();
			}
			let seen = |b: &Arc<Mutex<Vec<(u64, Vec<Event>)>>>| {
				let g = b.lock().unwrap();
				let all = g.iter().flat_map(|x| x.1.iter());
				let (mut empties, mut twins) = (0, 0);
				for e in all {
					if e.tags.is_empty() && e.metadata.is_empty() {
						empties += 1;
					}
					if e.metadata.contains_key("verif-twin") {
						twins += 1;
					}
				}
				(empties, twins)
			};
			let t = std::time::Instant::now();
			while seen(&batches) != (3, 3) && t.elapsed() < Duration::from_secs(3) {
				tokio::time::sleep(Duration::from_millis(2)).await;
			}
			tokio::time::sleep(Duration::from_millis(30)).await;
			let (e, tw) = seen(&batches);
			if (e, tw) != (3, 3) {
				findings.push((
					format!("C01/equal-events/{}", if e < 3 || tw < 3 { "lost" } else { "duplicate" }),
					format!("3 empty and 3 identical tagged events were sent back to back; the handler received {e} and {tw}"),
				));
			}
		}
		let base_usr1 = count(&batches, Signal::User1);
		for (ns, ws, _) in &sent {
			let before = count(&batches, *ws);
			kill(me, *ns).ok();
			let t = std::time::Instant::now();
			while count(&batches, *ws) == before && t.elapsed() < Duration::from_secs(5) {
				tokio::time::sleep(Duration::from_millis(1)).await;
			}
			tokio::time::sleep(Duration::from_millis(20)).await;
			let after = count(&batches, *ws);
			let _ = base_usr1;
			if after != before + 1 {
				findings.push((
					format!("C01/signal/{}", if after == before { "lost" } else { "duplicate" }),
					format!("one {ns:?} sent to the process produced {} {ws:?} events", after - before),
				));
			}
		}
		// a volley: one signal of every kind back to back, no waiting in between (signals of different kinds are never
		// coalesced by the OS, and a listener that exists is told about each kind): one event per kind and volley.
		// Between two volleys everything is awaited, because two signals of the *same* kind may legitimately merge.
		for volley in 0..3 {
			let before: Vec<usize> = sent.iter().map(|(_, ws, _)| count(&batches, *ws)).collect();
			let mut order: Vec<usize> = (0..sent.len()).collect();
			order.rotate_left(volley * 2 % sent.len());
			for i in &order {
				kill(me, sent[*i].0).ok();
			}
			let t = std::time::Instant::now();
			while t.elapsed() < Duration::from_secs(5) && sent.iter().zip(before.iter()).any(|((_, ws, _), b)| count(&batches, *ws) == *b) {
				tokio::time::sleep(Duration::from_millis(1)).await;
			}
			tokio::time::sleep(Duration::from_millis(25)).await;
			for ((ns, ws, _), b) in sent.iter().zip(before.iter()) {
				let after = count(&batches, *ws);
				if after != *b + 1 {
					findings.push((
						format!("C01/signal-volley/{}", if after == *b { "lost" } else { "duplicate" }),
						format!("six different signals sent back to back: {ns:?} produced {} {ws:?} events", after - *b),
					));
				}
			}
		}
		// keyboard EOF. Variant A: stdin (/dev/null for engine shards) is already at EOF, enabling the source must give
		// exactly one event. Variant B: stdin is an open pipe; the source is enabled, other settings change a few times
		// while it waits, then the write end is closed: exactly one event, also after further configuration changes.
		let eofs = |b: &Arc<Mutex<Vec<(u64, Vec<Event>)>>>| b.lock().unwrap().iter().flat_map(|x| x.1.iter()).filter(|e| e.tags.contains(&Tag::Keyboard(Keyboard::Eof))).count();
		let mut pipe_w = -1;
		if variant_b {
			let mut fds = [0i32; 2];
			if unsafe { libc::pipe(fds.as_mut_ptr()) } == 0 {
				unsafe {
					libc::dup2(fds[0], 0);
					libc::close(fds[0]);
				}
				pipe_w = fds[1];
			}
		}
		wx.config.keyboard_events(true);
		if pipe_w >= 0 {
			tokio::time::sleep(Duration::from_millis(40)).await;
			for k in 0..nchanges {
				match k % 3 {
					0 => wx.config.throttle(Duration::from_millis(11 + k as u64)),
					1 => wx.config.pathset(["/"; 0]),
					_ => wx.config.keyboard_events(true),
				};
				tokio::time::sleep(Duration::from_millis(25)).await;
			}
			if eofs(&batches) != 0 {
				findings.push(("C01/keyboard-eof/spurious".into(), "a keyboard EOF event was delivered while stdin was still open".into()));
			}
			unsafe { libc::close(pipe_w) };
		}
		let t = std::time::Instant::now();
		while eofs(&batches) == 0 && t.elapsed() < Duration::from_secs(3) {
			tokio::time::sleep(Duration::from_millis(2)).await;
		}
		tokio::time::sleep(Duration::from_millis(50)).await;
		let mut n = eofs(&batches);
		if n == 1 && pipe_w >= 0 {
			// later configuration changes must not produce the event again
			wx.config.throttle(Duration::from_millis(9));
			tokio::time::sleep(Duration::from_millis(30)).await;
			wx.config.pathset(["/"; 0]);
			tokio::time::sleep(Duration::from_millis(80)).await;
			n = eofs(&batches);
		}
		if n != 1 {
			findings.push((
				format!("C01/keyboard-eof/{}", if n == 0 { "lost" } else { "duplicate" }),
				format!("stdin reaching EOF ({}) produced {n} keyboard EOF events", if pipe_w >= 0 { format!("pipe closed after {nchanges} other configuration changes") } else { "already at EOF when enabled".into() }),
			));
		}
		if pipe_w >= 0 {
			// back to /dev/null for whatever runs next in this process
			if let Ok(f) = std::fs::File::open("/dev/null") {
				use std::os::fd::AsRawFd;
				unsafe { libc::dup2(f.as_raw_fd(), 0) };
			}
		}
		wx.send_event(quit_event(), Priority::Urgent).await.ok();
		tokio::time::timeout(Duration::from_secs(10), main).await.ok();
		true
	});
	rt.shutdown_timeout(Duration::from_millis(300));
	let gap = hb.take_max_gap();
	rep.eval();
	if !ok {
		rep.inconclusive("signal-source-never-answered");
		return;
	}
	let bs = batches.lock().unwrap();
	// tags as documented
	for (_, evs) in bs.iter() {
		for e in evs {
			for s in e.signals() {
				let want_src = if s == Signal::Interrupt { Source::Keyboard } else { Source::Os };
				if !e.tags.contains(&Tag::Source(want_src)) {
					findings.push(("C01/signal/wrong-tags".into(), format!("signal event {e} lacks the {want_src:?} source tag")));
				}
			}
		}
	}
	rep.count("signal_events_delivered", bs.iter().flat_map(|x| x.1.iter()).filter(|e| e.signals().next().is_some()).count() as u64);
	rep.count("signal_scenarios", 1);
	let mut f = Fnv::default();
	f.str("signals").u64(bs.len() as u64);
	rep.nontrivial(f.finish());
	for (sig, what) in findings {
		if gap < Duration::from_millis(500) {
			rep.violation(&sig, &what, json!({"batches": bs.iter().map(|(_, e)| e.iter().map(ToString::to_string).collect::<Vec<_>>()).collect::<Vec<_>>() }));
		} else {
			rep.inconclusive("signal-scenario-machine-stalled");
		}
	}
}
