//! C01 (real filesystem sources) — placeholder, filled in below.
use vcommon::{Report, Rng, ShardArgs};
pub fn run_one(_args: &ShardArgs, _rng: &mut Rng, _rep: &mut Report, _k: usize) {
	std::thread::sleep(std::time::Duration::from_millis(50));
}
