//! C13 (and the watcher part of C15): run-time configuration changes against a recording fake
//! watcher installed through hook H1. Oracle at quiescence: the only live watcher has the configured
//! kind and its registered set equals the configured path set (minus paths whose last watch attempt
//! was made to fail); an empty set releases the watcher; every failed watch/unwatch produced exactly
//! one runtime error naming the path; reconfiguring from inside handlers neither deadlocks nor
//! changes the invocation in progress.

use std::{
	collections::{BTreeMap, BTreeSet},
	path::{Path, PathBuf},
	sync::{
		atomic::{AtomicBool, AtomicU64, Ordering},
		Arc, Mutex,
	},
	time::Duration,
};

use notify::{Config as NConfig, RecursiveMode, Watcher as _, WatcherKind};
use vcommon::{json, mono_ns, Fnv, Heartbeat, Report, Rng, ShardArgs, Value};
use watchexec::{sources::fs::Watcher, Config, ErrorHook, WatchedPath, Watchexec};
use watchexec_events::{Event, Priority, Source, Tag};

#[derive(Clone, Debug, PartialEq)]
pub enum Op {
	PathSet(Vec<(String, bool)>),
	Kind(Option<u64>), // None = native, Some(ms) = poll
	Throttle(u64),
	Keyboard(bool),
	ReplaceErrorHandler,
}

#[derive(Clone, Debug, PartialEq)]
pub enum When {
	/// after the previous change has settled
	Idle,
	/// immediately after the previous op, without waiting
	BackToBack,
	/// from inside the n-th watch/unwatch call the worker makes from now on
	InsideCall(usize),
	/// from inside the action handler (triggered by a synthetic event)
	FromAction,
	/// from inside the error handler (triggered by the next injected failure)
	FromErrorHandler,
	/// from another OS thread, concurrently with the next op
	Thread,
}

#[derive(Clone, Debug)]
pub struct Scn {
	pub ops: Vec<(When, Op)>,
	/// (path name, is_unwatch, attempts that fail)
	pub fail: Vec<(String, bool, Vec<usize>)>,
}

#[derive(Clone, Debug)]
enum WEv {
	Create { inst: usize, kind: String },
	Watch { inst: usize, path: String, recursive: bool, failed: bool },
	Unwatch { inst: usize, path: String, failed: bool },
	Drop { inst: usize },
}

#[derive(Default)]
struct Rec {
	log: Vec<(u64, WEv)>,
	instances: Vec<Inst>,
	attempts: BTreeMap<(String, bool), usize>,
	fail: Vec<(String, bool, Vec<usize>)>,
	calls_since_arm: usize,
	armed: Vec<(usize, Box<dyn FnOnce() + Send>)>,
	injected: Vec<(String, bool)>,
	handlers: Vec<SharedHandler>,
	/// errors the watcher reports through its callback from *inside* the next watch() calls, on the caller's own task
	/// (what notify's poll watcher does for an unreadable root)
	sync_cb_errors: usize,
	fired_in_create: usize,
	multi_path_failures: usize,
}

struct Inst {
	kind: String,
	registered: BTreeMap<String, bool>,
	dropped: bool,
}

struct FakeWatcher {
	id: usize,
	rec: Arc<Mutex<Rec>>,
	_handler: SharedHandler,
}

type SharedHandler = Arc<Mutex<watchexec::sources::fs::verif::Handler>>;

fn kind_name(k: Watcher) -> String {
	format!("{k:?}")
}

impl FakeWatcher {
	fn call(&self, path: &Path, unwatch: bool, recursive: bool) -> notify::Result<()> {
		let name = path.display().to_string();
		let (failed, multi, other_only, cb) = {
			let mut r = self.rec.lock().unwrap();
			let n = {
				let e = r.attempts.entry((name.clone(), unwatch)).or_default();
				let n = *e;
				*e += 1;
				n
			};
			let failed = r.fail.iter().any(|(p, u, idx)| name.ends_with(p.as_str()) && *u == unwatch && idx.contains(&n));
			let other_only = (name.len() + n) % 3 == 1;
			if failed && other_only {
				// a failure that names one path, but not the watched one as it was given (what a back end does that
				// reports the entry below the root it could not read): still one runtime error, naming that path
				r.injected.push((format!("{name}/.verif-only"), unwatch));
			} else if failed {
				r.injected.push((name.clone(), unwatch));
				if (name.len() + n) % 3 == 0 {
					// a failure that names several paths (the watched one and two below it): one runtime error each
					r.injected.push((format!("{name}/.verif-also-1"), unwatch));
					r.injected.push((format!("{name}/.verif-also-2"), unwatch));
					r.multi_path_failures += 1;
				}
			}
			let multi = failed && (name.len() + n) % 3 == 0;
			let id = self.id;
			if unwatch {
				if !failed {
					r.instances[id].registered.remove(&name);
				}
				r.log.push((mono_ns(), WEv::Unwatch { inst: id, path: name.clone(), failed }));
			} else {
				if !failed {
					r.instances[id].registered.insert(name.clone(), recursive);
				}
				r.log.push((mono_ns(), WEv::Watch { inst: id, path: name.clone(), recursive, failed }));
			}
			r.calls_since_arm += 1;
			let c = r.calls_since_arm;
			let pos = r.armed.iter().position(|(n, _)| *n <= c);
			(failed, multi && !other_only, failed && other_only, pos.map(|p| r.armed.remove(p).1))
		};
		// a config change issued at exactly this point of the worker's read-apply-wait cycle
		if let Some(cb) = cb {
			cb();
		}
		if !unwatch {
			let k = {
				let mut r = self.rec.lock().unwrap();
				if r.sync_cb_errors > 0 {
					r.sync_cb_errors -= 1;
					Some(r.sync_cb_errors)
				} else {
					None
				}
			};
			if let Some(k) = k {
				let mut h = self._handler.lock().unwrap();
				(*h)(Err(notify::Error::generic(&format!("verif-callback-error-sync{k}-"))));
			}
		}
		if failed {
			// notify errors come with or without the path they are about; either way one runtime error naming the path
			let e = notify::Error::generic("verif: injected watcher failure");
			if other_only {
				return Err(e.add_path(path.join(".verif-only")));
			}
			if multi {
				return Err(e.add_path(path.to_path_buf()).add_path(path.join(".verif-also-1")).add_path(path.join(".verif-also-2")));
			}
			Err(if name.len() % 2 == 0 || unwatch { e.add_path(path.to_path_buf()) } else { e })
		} else {
			Ok(())
		}
	}
}

impl notify::Watcher for FakeWatcher {
	fn new<F: notify::EventHandler>(_event_handler: F, _config: NConfig) -> notify::Result<Self>
	where
		Self: Sized,
	{
		Err(notify::Error::generic("verif fake watcher is only built by the factory"))
	}
	fn watch(&mut self, path: &Path, mode: RecursiveMode) -> notify::Result<()> {
		self.call(path, false, mode == RecursiveMode::Recursive)
	}
	fn unwatch(&mut self, path: &Path) -> notify::Result<()> {
		self.call(path, true, false)
	}
	fn kind() -> WatcherKind
	where
		Self: Sized,
	{
		WatcherKind::NullWatcher
	}
}

impl Drop for FakeWatcher {
	fn drop(&mut self) {
		let mut r = self.rec.lock().unwrap();
		r.instances[self.id].dropped = true;
		r.log.push((mono_ns(), WEv::Drop { inst: self.id }));
	}
}

fn gen_pathset(rng: &mut Rng) -> Vec<(String, bool)> {
	let names = ["a", "b", "a/c"];
	let mut v = vec![];
	for n in names {
		if rng.chance(1, 2) {
			v.push((n.to_string(), rng.chance(2, 3)));
		}
	}
	v
}

pub fn gen_scn(rng: &mut Rng, k: usize, with_faults: bool) -> Scn {
	if with_faults && k % 8 == 3 {
		// directed: a registered path switches its recursion mode while (re-)registering it fails, in a settled history
		let p = (*rng.pick(&["a", "b", "a/c"])).to_string();
		let m = rng.chance(1, 2);
		let mut first = gen_pathset(rng);
		first.retain(|x| x.0 != p);
		first.push((p.clone(), m));
		let mut second = first.clone();
		second.last_mut().unwrap().1 = !m;
		let mut ops = vec![(When::Idle, Op::PathSet(first)), (When::Idle, Op::PathSet(second))];
		if rng.chance(1, 2) {
			ops.push((When::Idle, Op::PathSet(gen_pathset(rng))));
		}
		let attempts = match rng.below(3) {
			0 => vec![1],
			1 => vec![1, 2],
			_ => vec![1, 2, 3],
		};
		let mut fail = vec![(p.clone(), false, attempts)];
		if rng.chance(1, 3) {
			fail.push((p, true, vec![0]));
		}
		return Scn { ops, fail };
	}
	if with_faults && k % 8 == 7 {
		// directed: a recursion-mode switch whose unwatch (or re-watch) fails, then the switch back (or another set)
		let p = (*rng.pick(&["a", "b", "a/c"])).to_string();
		let m = rng.chance(1, 2);
		let mut first = gen_pathset(rng);
		first.retain(|x| x.0 != p);
		first.push((p.clone(), m));
		let mut second = first.clone();
		second.last_mut().unwrap().1 = !m;
		let third = if rng.chance(2, 3) { first.clone() } else { gen_pathset(rng) };
		let when = |rng: &mut Rng| if rng.chance(3, 4) { When::Idle } else { When::BackToBack };
		let mut ops = vec![(When::Idle, Op::PathSet(first)), (when(rng), Op::PathSet(second.clone())), (when(rng), Op::PathSet(third))];
		if rng.chance(1, 3) {
			ops.push((When::Idle, Op::PathSet(second)));
		}
		let fail = match rng.below(3) {
			0 => vec![(p, true, vec![0])],
			1 => vec![(p, true, vec![0, 1])],
			_ => vec![(p.clone(), true, vec![0]), (p, false, vec![1])],
		};
		return Scn { ops, fail };
	}
	if with_faults && k % 8 == 5 {
		// directed: a registration fails, then the same path set is applied again (a new attempt), settled history
		let p = (*rng.pick(&["a", "b", "a/c"])).to_string();
		let mut set = gen_pathset(rng);
		set.retain(|x| x.0 != p);
		set.push((p.clone(), rng.chance(1, 2)));
		let mut ops = vec![(When::Idle, Op::PathSet(set.clone()))];
		if rng.chance(1, 3) {
			ops.push((When::Idle, Op::Throttle(10)));
		}
		ops.push((When::Idle, Op::PathSet(set)));
		return Scn { ops, fail: vec![(p, false, if rng.chance(1, 2) { vec![0] } else { vec![0, 1] })] };
	}
	if k % 8 == 1 && rng.chance(1, 2) {
		// directed: the watcher kind and the path set change in one step (back to back, so that the worker usually sees
		// both in one wake-up), the new set dropping a path; then the dropped path comes back
		let mut first = vec![];
		for n in ["a", "b", "a/c"] {
			if rng.chance(3, 4) {
				first.push((n.to_string(), rng.chance(2, 3)));
			}
		}
		if first.len() < 2 {
			first = vec![("a".to_string(), true), ("b".to_string(), rng.chance(1, 2))];
		}
		let mut second = first.clone();
		second.remove(rng.usize(second.len()));
		let k1 = if rng.chance(1, 2) { None } else { Some(50u64) };
		let k2 = if k1.is_none() { Some(*rng.pick(&[50u64, 100])) } else { None };
		let mut ops = vec![(When::Idle, Op::Kind(k1)), (When::Idle, Op::PathSet(first.clone()))];
		if rng.chance(1, 2) {
			ops.push((When::Idle, Op::Kind(k2)));
			ops.push((When::BackToBack, Op::PathSet(second)));
		} else {
			ops.push((When::Idle, Op::PathSet(second)));
			ops.push((When::BackToBack, Op::Kind(k2)));
		}
		if rng.chance(1, 3) {
			ops.push((When::Idle, Op::Throttle(10)));
		}
		ops.push((When::Idle, Op::PathSet(first)));
		return Scn { ops, fail: vec![] };
	}
	let n = 1 + rng.usize(4);
	let mut ops = vec![];
	for i in 0..n {
		let prev_set = ops.iter().rev().find_map(|(_, o): &(When, Op)| if let Op::PathSet(v) = o { Some(v.clone()) } else { None });
		let op = match rng.below(10) {
			// the same paths with a recursion mode flipped
			0 if prev_set.as_ref().map_or(false, |v| !v.is_empty()) => {
				let mut v = prev_set.unwrap();
				let j = rng.usize(v.len());
				v[j].1 = !v[j].1;
				Op::PathSet(v)
			}
			0..=4 => Op::PathSet(gen_pathset(rng)),
			5 | 6 => Op::Kind(if rng.chance(1, 2) { None } else { Some(*rng.pick(&[50u64, 100])) }),
			7 => Op::Throttle(*rng.pick(&[0u64, 10, 50])),
			8 => Op::Keyboard(rng.chance(1, 2)),
			_ => Op::ReplaceErrorHandler,
		};
		let when = if i == 0 || k % 4 == 1 {
			// every fourth scenario is a settled history: each change is issued after the previous one was applied
			When::Idle
		} else {
			match (k + i) % 7 {
				0 | 1 => When::Idle,
				2 => When::BackToBack,
				3 => When::InsideCall(1 + rng.usize(2)),
				4 => When::FromAction,
				5 => When::Thread,
				_ => {
					if with_faults {
						When::FromErrorHandler
					} else {
						When::Idle
					}
				}
			}
		};
		ops.push((when, op));
	}
	// always end on a pathset so that there is something to converge to (half of the time)
	if rng.chance(1, 2) {
		ops.push((When::Idle, Op::PathSet(gen_pathset(rng))));
	}
	let mut fail = vec![];
	if with_faults {
		for _ in 0..rng.usize(3) {
			let attempts = match rng.below(4) {
				0 | 1 => vec![rng.usize(2)],
				2 => vec![1, 2],
				_ => vec![0, 1, 2, 3],
			};
			fail.push(((*rng.pick(&["a", "b", "a/c"])).to_string(), rng.chance(1, 3), attempts));
		}
	}
	Scn { ops, fail }
}

fn scn_json(s: &Scn) -> Value {
	let op = |o: &Op| match o {
		Op::PathSet(v) => json!({"pathset": v}),
		Op::Kind(k) => json!({"kind_poll_ms": k}),
		Op::Throttle(t) => json!({"throttle_ms": t}),
		Op::Keyboard(b) => json!({"keyboard": b}),
		Op::ReplaceErrorHandler => json!("replace_error_handler"),
	};
	let when = |w: &When| match w {
		When::Idle => json!("idle"),
		When::BackToBack => json!("back_to_back"),
		When::InsideCall(n) => json!({"inside_call": n}),
		When::FromAction => json!("from_action"),
		When::FromErrorHandler => json!("from_error_handler"),
		When::Thread => json!("thread"),
	};
	json!({"ops": s.ops.iter().map(|(w, o)| json!([when(w), op(o)])).collect::<Vec<_>>(), "fail": s.fail})
}

pub fn scn_from_json(v: &Value) -> Option<Scn> {
	let mut ops = vec![];
	for pair in v["ops"].as_array()? {
		let w = &pair[0];
		let when = if let Some(n) = w.get("inside_call") {
			When::InsideCall(n.as_u64()? as usize)
		} else {
			match w.as_str()? {
				"idle" => When::Idle,
				"back_to_back" => When::BackToBack,
				"from_action" => When::FromAction,
				"from_error_handler" => When::FromErrorHandler,
				_ => When::Thread,
			}
		};
		let o = &pair[1];
		let op = if let Some(ps) = o.get("pathset") {
			Op::PathSet(ps.as_array()?.iter().filter_map(|e| Some((e[0].as_str()?.to_string(), e[1].as_bool()?))).collect())
		} else if let Some(k) = o.get("kind_poll_ms") {
			Op::Kind(k.as_u64())
		} else if let Some(t) = o.get("throttle_ms") {
			Op::Throttle(t.as_u64()?)
		} else if let Some(b) = o.get("keyboard") {
			Op::Keyboard(b.as_bool()?)
		} else {
			Op::ReplaceErrorHandler
		};
		ops.push((when, op));
	}
	let fail = v["fail"]
		.as_array()
		.map(|a| {
			a.iter()
				.filter_map(|f| Some((f[0].as_str()?.to_string(), f[1].as_bool()?, f[2].as_array()?.iter().filter_map(|x| x.as_u64().map(|n| n as usize)).collect())))
				.collect()
		})
		.unwrap_or_default();
	Some(Scn { ops, fail })
}

struct Outcome {
	violations: Vec<(String, String)>,
	inconclusive: Option<String>,
	log: Vec<String>,
	watch_calls: usize,
	fired_in_create: usize,
	multi_path_failures: usize,
	instances: usize,
	errors_seen: usize,
	hash: u64,
	settled: usize,
}

fn apply(config: &Arc<Config>, base: &Path, op: &Op, errs: &Arc<ErrLog>) {
	match op {
		Op::PathSet(set) => {
			config.pathset(set.iter().map(|(p, rec)| if *rec { WatchedPath::recursive(base.join(p)) } else { WatchedPath::non_recursive(base.join(p)) }));
		}
		Op::Kind(None) => {
			config.file_watcher(Watcher::Native);
		}
		Op::Kind(Some(ms)) => {
			config.file_watcher(Watcher::Poll(Duration::from_millis(*ms)));
		}
		Op::Throttle(ms) => {
			config.throttle(Duration::from_millis(*ms));
		}
		Op::Keyboard(b) => {
			config.keyboard_events(*b);
		}
		Op::ReplaceErrorHandler => {
			let v = errs.version.fetch_add(1, Ordering::SeqCst) + 1;
			install_errh(config, errs, v, None);
		}
	}
}

struct ErrLog {
	recs: Mutex<Vec<(u64, String, u64)>>, // (time, debug text, handler version)
	version: AtomicU64,
	pending_cb: Mutex<Option<Box<dyn FnOnce() + Send>>>,
}

fn install_errh(config: &Arc<Config>, errs: &Arc<ErrLog>, version: u64, _unused: Option<()>) {
	let e = errs.clone();
	config.on_error(move |hook: ErrorHook| {
		e.recs.lock().unwrap().push((mono_ns(), format!("{:?}", hook.error), version));
		let cb = e.pending_cb.lock().unwrap().take();
		if let Some(cb) = cb {
			cb();
		}
	});
}

fn run_scn(scn: &Scn, base: &Path) -> Outcome {
	let rt = tokio::runtime::Builder::new_multi_thread().worker_threads(3).enable_all().build().expect("runtime");
	let hb = Heartbeat::start();
	let rec = Arc::new(Mutex::new(Rec { fail: scn.fail.clone(), ..Default::default() }));
	{
		let rec = rec.clone();
		watchexec::sources::fs::verif::set_factory(Some(Arc::new(move |kind, handler| {
			let (id, cb) = {
				let mut r = rec.lock().unwrap();
				r.instances.push(Inst { kind: kind_name(kind), registered: BTreeMap::new(), dropped: false });
				let id = r.instances.len() - 1;
				r.log.push((mono_ns(), WEv::Create { inst: id, kind: kind_name(kind) }));
				// creating the watcher is a call of the worker's apply cycle like watch / unwatch: an armed change may
				// be issued from inside it (after the worker has read the configuration, before it registers anything)
				r.calls_since_arm += 1;
				let c = r.calls_since_arm;
				let pos = r.armed.iter().position(|(n, _)| *n <= c);
				(id, pos.map(|p| r.armed.remove(p).1))
			};
			if let Some(cb) = cb {
				rec.lock().unwrap().fired_in_create += 1;
				cb();
			}
			let handler: SharedHandler = Arc::new(Mutex::new(handler));
			rec.lock().unwrap().handlers.push(handler.clone());
			Ok(Box::new(FakeWatcher { id, rec: rec.clone(), _handler: handler }) as Box<dyn notify::Watcher + Send>)
		})));
	}
	let out = rt.block_on(async {
		let errs = Arc::new(ErrLog { recs: Mutex::new(vec![]), version: AtomicU64::new(0), pending_cb: Mutex::new(None) });
		let action_cb: Arc<Mutex<Option<Box<dyn FnOnce() + Send>>>> = Arc::new(Mutex::new(None));
		let action_log: Arc<Mutex<Vec<(u64, u64, bool)>>> = Arc::new(Mutex::new(vec![])); // (version, t, did_reconfigure)
		let action_version = Arc::new(AtomicU64::new(0));
		let config = Config::default();
		config.throttle(Duration::from_millis(5));
		let wx = Arc::new(Watchexec::with_config(config).expect("with_config"));
		install_errh(&wx.config, &errs, 0, None);
		fn install_action(cfg: &Arc<Config>, v: u64, cb: Arc<Mutex<Option<Box<dyn FnOnce() + Send>>>>, log: Arc<Mutex<Vec<(u64, u64, bool)>>>, ver: Arc<AtomicU64>) {
			let cfg2 = cfg.clone();
			cfg.on_action(move |mut action| {
				if action.events.iter().any(|e| e.metadata.contains_key("verif-quit")) {
					action.quit();
					return action;
				}
				let pending = cb.lock().unwrap().take();
				let did = pending.is_some();
				if let Some(f) = pending {
					// reconfigure from inside the invocation, including replacing this very handler
					let nv = ver.fetch_add(1, Ordering::SeqCst) + 1;
					install_action(&cfg2, nv, cb.clone(), log.clone(), ver.clone());
					f();
				}
				// the invocation in progress completes with the old code: it logs its own version
				log.lock().unwrap().push((v, mono_ns(), did));
				action
			});
		}
		install_action(&wx.config, 0, action_cb.clone(), action_log.clone(), action_version.clone());
		let main = wx.main();
		let mut violations: Vec<(String, String)> = vec![];
		let mut inconclusive = None;
		let mut threads = vec![];
		let mut settled_histories = 0usize;

		let settle = |rec: &Arc<Mutex<Rec>>| {
			let rec = rec.clone();
			async move {
				// quiescent when the recorder log has not grown for 40 ms (bounded: 2 s)
				let mut last = usize::MAX;
				let mut stable = 0;
				for _ in 0..200 {
					let n = rec.lock().unwrap().log.len();
					if n == last {
						stable += 1;
						if stable >= 4 {
							break;
						}
					} else {
						stable = 0;
						last = n;
					}
					tokio::time::sleep(Duration::from_millis(10)).await;
				}
			}
		};

		let mut send_trigger = 0u64;
		let mut idle_marks: Vec<u64> = vec![];
		for (i, (when, op)) in scn.ops.iter().enumerate() {
			// a change to be issued from inside a watcher call is armed *before* the change that causes the calls
			if let Some((When::InsideCall(n), nop)) = scn.ops.get(i + 1) {
				if !matches!(when, When::InsideCall(_)) {
					settle(&rec).await;
					let cfg = wx.config.clone();
					let (nop, base2, errs2) = (nop.clone(), base.to_path_buf(), errs.clone());
					let mut r = rec.lock().unwrap();
					let at = r.calls_since_arm + n;
					r.armed.push((at, Box::new(move || apply(&cfg, &base2, &nop, &errs2))));
				}
			}
			if matches!(when, When::InsideCall(_)) && i > 0 && !matches!(scn.ops[i - 1].0, When::InsideCall(_)) {
				continue; // armed above
			}
			let cfg = wx.config.clone();
			let op2 = op.clone();
			let base2 = base.to_path_buf();
			let errs2 = errs.clone();
			let do_it: Box<dyn FnOnce() + Send> = Box::new(move || apply(&cfg, &base2, &op2, &errs2));
			match when {
				When::Idle => {
					settle(&rec).await;
					idle_marks.push(mono_ns());
					do_it();
				}
				When::BackToBack => do_it(),
				When::InsideCall(n) => {
					let mut r = rec.lock().unwrap();
					let at = r.calls_since_arm + n;
					r.armed.push((at, do_it));
				}
				When::FromAction => {
					*action_cb.lock().unwrap() = Some(do_it);
					send_trigger += 1;
					let mut md = std::collections::HashMap::new();
					md.insert("verif-trigger".to_string(), vec![send_trigger.to_string()]);
					wx.send_event(Event { tags: vec![Tag::Source(Source::Internal)], metadata: md }, Priority::Urgent).await.ok();
					// bounded progress: the handler must return (no deadlock)
					let t0 = std::time::Instant::now();
					while action_cb.lock().unwrap().is_some() && t0.elapsed() < Duration::from_secs(10) {
						tokio::time::sleep(Duration::from_millis(2)).await;
					}
					if action_cb.lock().unwrap().is_some() {
						if hb.peek_max_gap() < Duration::from_millis(500) {
							violations.push(("C13/handler-reconfigure/action-never-ran".into(), "the action handler that was to reconfigure never ran within 10 s".into()));
						} else {
							inconclusive = Some("machine-stalled".to_string());
						}
					}
				}
				When::FromErrorHandler => {
					*errs.pending_cb.lock().unwrap() = Some(do_it);
				}
				When::Thread => {
					threads.push(std::thread::spawn(do_it));
				}
			}
		}
		for t in threads {
			t.join().ok();
		}
		// a reconfiguration parked for the error handler that never fired is applied now (changes must stop)
		let parked = errs.pending_cb.lock().unwrap().take();
		if let Some(cb) = parked {
			settle(&rec).await;
			cb();
		}
		// give armed inside-call changes the chance to fire where they were meant to; what is left is applied idle
		settle(&rec).await;
		let armed: Vec<_> = std::mem::take(&mut rec.lock().unwrap().armed);
		if !armed.is_empty() {
			for (_, cb) in armed {
				cb();
			}
		}

		// ---- quiescence: poll until the registered state matches the configuration (cap 2 s) -----
		let expect = |r: &Rec, cfg: &Config| -> Result<(), (String, String)> {
			let cfg_paths: BTreeMap<String, bool> = cfg.pathset.get().into_iter().map(|w| (PathBuf::from(&w).display().to_string(), recursive_of(&w))).collect();
			let cfg_kind = kind_name(cfg.file_watcher.get());
			let live: Vec<(usize, &Inst)> = r.instances.iter().enumerate().filter(|(_, i)| !i.dropped).collect();
			if cfg_paths.is_empty() {
				if !live.is_empty() {
					return Err(("C13/not-released".into(), format!("the configured path set is empty but watcher #{} ({}) is still alive with {:?}", live[0].0, live[0].1.kind, live[0].1.registered)));
				}
				return Ok(());
			}
			if live.len() != 1 {
				return Err((format!("C13/live-watchers/{}", live.len()), format!("{} live watchers for a non-empty path set {:?}", live.len(), cfg_paths)));
			}
			let (id, inst) = live[0];
			if inst.kind != cfg_kind {
				return Err(("C13/wrong-kind".into(), format!("live watcher #{id} is {} but {} is configured", inst.kind, cfg_kind)));
			}
			// paths whose last watch attempt was made to fail may legitimately be missing
			let mut want = cfg_paths.clone();
			for (p, _) in cfg_paths.iter() {
				let last_failed = r.log.iter().rev().find_map(|(_, e)| match e {
					WEv::Watch { inst, path, failed, .. } if *inst == id && path == p => Some(*failed),
					_ => None,
				});
				if last_failed == Some(true) {
					want.remove(p);
				}
			}
			// a registration whose last unwatch attempt failed may legitimately still be there (also when the
			// same path is configured in the other recursion mode but could not be re-registered)
			let mut got = inst.registered.clone();
			for (p, mode) in inst.registered.iter() {
				if want.get(p) != Some(mode) {
					let last_unwatch_failed = r.log.iter().rev().find_map(|(_, e)| match e {
						WEv::Unwatch { inst, path, failed } if *inst == id && path == p => Some(*failed),
						_ => None,
					});
					if last_unwatch_failed == Some(true) {
						got.remove(p);
						// and then the configured mode could not be put in its place either
						want.remove(p);
					}
				}
			}
			if got != want {
				let missing: Vec<_> = want.iter().filter(|(p, m)| got.get(*p) != Some(*m)).map(|(p, m)| format!("{}{}", short(p), if *m { "(rec)" } else { "(non-rec)" })).collect();
				let extra: Vec<_> = got.iter().filter(|(p, _)| !want.contains_key(*p)).map(|(p, _)| short(p)).collect();
				let class = if !missing.is_empty() && !extra.is_empty() { "missing+extra" } else if !missing.is_empty() { "missing" } else { "extra" };
				return Err((
					format!("C13/registered-set/{class}"),
					format!("registered with the {} watcher: {:?}; configured: {:?} (missing {missing:?}, extra {extra:?})", inst.kind, short_map(&got), short_map(&cfg_paths)),
				));
			}
			Ok(())
		};
		let t0 = std::time::Instant::now();
		let mut verdict;
		loop {
			settle(&rec).await;
			verdict = {
				let r = rec.lock().unwrap();
				expect(&r, &wx.config)
			};
			if verdict.is_ok() || t0.elapsed() > Duration::from_secs(2) {
				break;
			}
		}
		if let Err(v) = verdict {
			if hb.peek_max_gap() < Duration::from_millis(500) {
				violations.push(v);
			} else {
				inconclusive = Some("machine-stalled".to_string());
			}
		}

		// ---- one registration attempt per path and configuration change ("once per attempt") --------
		// Decided on settled histories only (every change issued after the previous one was applied, so the calls
		// between two marks belong to one change): within one change a path is passed to watch() at most once per
		// watcher instance, unless it was unwatched in between (recursion-mode switch).
		if scn.ops.iter().all(|(w, _)| *w == When::Idle) && idle_marks.len() == scn.ops.len() {
			let r = rec.lock().unwrap();
			for (si, t0) in idle_marks.iter().enumerate() {
				let t1 = idle_marks.get(si + 1).copied().unwrap_or(u64::MAX);
				let mut seen: BTreeMap<(usize, String), bool> = BTreeMap::new(); // (inst, path) -> did an attempt fail
				for (t, e) in r.log.iter().filter(|(t, _)| *t > *t0 && *t <= t1) {
					let _ = t;
					match e {
						WEv::Watch { inst, path, failed, .. } => {
							if let Some(prev_failed) = seen.get(&(*inst, path.clone())) {
								violations.push((
									"C13/path-registered-twice-in-one-change".into(),
									format!("watch({}) was called twice on watcher #{inst} while applying one configuration change (no unwatch in between)", short(path)),
								));
								if *failed && *prev_failed {
									violations.push((
										"C15/watch-error/one-failed-registration-reported-twice".into(),
										format!("one configuration change made two failing watch({}) attempts: the error handler hears about one failed registration twice", short(path)),
									));
								}
							}
							seen.insert((*inst, path.clone()), *failed);
						}
						WEv::Unwatch { inst, path, .. } => {
							seen.remove(&(*inst, path.clone()));
						}
						_ => {}
					}
				}
			}
			// ... and every change of the path set is an attempt: a configured path that is not registered when the set
			// is applied (again) is passed to watch() (again). Judged for the last change only, whose calls had the whole
			// quiescence wait to show up.
			if let (Some((_, Op::PathSet(set))), Some(t0)) = (scn.ops.last(), idle_marks.last()) {
				let mut reg: BTreeMap<usize, BTreeMap<String, bool>> = BTreeMap::new();
				for (_, e) in r.log.iter().filter(|(t, _)| *t <= *t0) {
					match e {
						WEv::Watch { inst, path, recursive, failed: false } => {
							reg.entry(*inst).or_default().insert(path.clone(), *recursive);
						}
						WEv::Unwatch { inst, path, failed: false } => {
							reg.entry(*inst).or_default().remove(path);
						}
						WEv::Drop { inst } => {
							reg.remove(inst);
						}
						_ => {}
					}
				}
				for (name, recursive) in set {
					let abs = base.join(name).display().to_string();
					let registered = reg.values().any(|m| m.get(&abs) == Some(recursive));
					// (a path still registered in the other recursion mode is first unwatched: if that fails, nothing more
					// can be done for it, which the registered-set rule excuses as well)
					let attempted = r.log.iter().any(|(t, e)| {
						*t > *t0 && matches!(e, WEv::Watch { path, .. } | WEv::Unwatch { path, .. } if *path == abs)
					});
					if !registered && !attempted && hb.peek_max_gap() < Duration::from_millis(500) {
						violations.push((
							"C13/unregistered-path-not-attempted".into(),
							format!("the path set was applied with {} configured and not registered, but no watch / unwatch call for {} followed: a change of the path set is an attempt for every path that is not registered", short(&abs), short(&abs)),
						));
					}
				}
			}
			settled_histories = 1;
		}

		// ---- runtime errors: exactly one per injected failure, naming the path ----------------------
		tokio::time::sleep(Duration::from_millis(20)).await;
		let recs = errs.recs.lock().unwrap().clone();
		let injected = rec.lock().unwrap().injected.clone();
		let mut want: BTreeMap<(String, bool), usize> = BTreeMap::new();
		for i in &injected {
			*want.entry(i.clone()).or_default() += 1;
		}
		let mut got: BTreeMap<(String, bool), usize> = BTreeMap::new();
		for (_, text, _) in &recs {
			let rm = text.contains("PathRemove");
			let add = text.contains("PathAdd");
			if !(rm || add) {
				violations.push(("C15/unexpected-runtime-error".into(), format!("unexpected runtime error: {}", text.chars().take(200).collect::<String>())));
				continue;
			}
			if let Some(p) = injected.iter().map(|i| &i.0).find(|p| text.contains(&format!("\"{p}\""))) {
				*got.entry((p.clone(), rm)).or_default() += 1;
			} else {
				violations.push(("C15/error-names-no-injected-path".into(), format!("runtime error does not name a failing path: {}", text.chars().take(200).collect::<String>())));
			}
		}
		for (k, n) in &want {
			let g = *got.get(k).unwrap_or(&0);
			if g != *n {
				violations.push((
					format!("C15/watch-error/{}-{}", if k.1 { "unwatch" } else { "watch" }, if g < *n { "not-reported" } else { "reported-twice" }),
					format!("{} failure(s) injected for {} {} but {} runtime error(s) reached the handler", n, if k.1 { "unwatch of" } else { "watch of" }, short(&k.0), g),
				));
			}
		}
		// error-handler replacement: versions never go backwards
		let mut lastv = 0;
		for (_, _, v) in &recs {
			if *v < lastv {
				violations.push(("C13/error-handler-version-went-back".into(), "an older error handler was invoked after its replacement had handled an error".into()));
			}
			lastv = *v;
		}
		// action handler replacement: the invocation that reconfigured ran old code (its own version), the next the new
		let al = action_log.lock().unwrap().clone();
		for w in al.windows(2) {
			if w[0].2 && w[1].0 <= w[0].0 {
				violations.push(("C13/handler-reconfigure/next-invocation-used-old-handler".into(), format!("after invocation v{} replaced the action handler, the next invocation ran v{}", w[0].0, w[1].0)));
			}
		}

		// quit
		let mut md = std::collections::HashMap::new();
		md.insert("verif-quit".to_string(), vec!["1".into()]);
		wx.send_event(Event { tags: vec![], metadata: md }, Priority::Urgent).await.ok();
		let ended = tokio::time::timeout(Duration::from_secs(10), main).await;
		if ended.is_err() {
			violations.push(("C13/main-stuck".into(), "the main task did not end within 10 s of the quit".into()));
		}
		(violations, inconclusive, recs.len(), settled_histories)
	});
	watchexec::sources::fs::verif::set_factory(None);
	rt.shutdown_timeout(Duration::from_millis(200));
	drop(hb);
	let r = rec.lock().unwrap();
	let mut f = Fnv::default();
	for (_, e) in &r.log {
		f.str(match e {
			WEv::Create { .. } => "C",
			WEv::Watch { failed: false, .. } => "w",
			WEv::Watch { failed: true, .. } => "W",
			WEv::Unwatch { failed: false, .. } => "u",
			WEv::Unwatch { failed: true, .. } => "U",
			WEv::Drop { .. } => "D",
		});
	}
	Outcome {
		violations: out.0,
		inconclusive: out.1,
		log: r.log.iter().map(|(_, e)| format!("{e:?}").replace(&base.display().to_string(), "<base>")).collect(),
		watch_calls: r.log.iter().filter(|(_, e)| matches!(e, WEv::Watch { .. } | WEv::Unwatch { .. })).count(),
		fired_in_create: r.fired_in_create,
		multi_path_failures: r.multi_path_failures,
		instances: r.instances.len(),
		errors_seen: out.2,
		settled: out.3,
		hash: f.finish(),
	}
}

fn recursive_of(w: &WatchedPath) -> bool {
	format!("{w:?}").contains("recursive: true")
}

fn short(p: &str) -> String {
	let parts: Vec<&str> = p.rsplit('/').take(2).collect();
	if parts.len() == 2 && parts[1] == "a" && parts[0] == "c" {
		"a/c".into()
	} else {
		parts[0].to_string()
	}
}

fn short_map(m: &BTreeMap<String, bool>) -> BTreeSet<String> {
	m.iter().map(|(p, r)| format!("{}{}", short(p), if *r { "(rec)" } else { "(non-rec)" })).collect()
}

static WARNED: AtomicBool = AtomicBool::new(false);

pub fn run_one(prop: &str, args: &ShardArgs, rng: &mut Rng, rep: &mut Report, k: usize) {
	let base = args.scratch.join("c13-base");
	for d in ["a/c", "b"] {
		std::fs::create_dir_all(base.join(d)).ok();
	}
	let with_faults = prop == "C15" || k % 3 == 0;
	// replay: the recorded watcher scenario; a replay file of another scenario family (the shard is then re-run as a whole)
	// leaves this family generating as usual
	let recorded = args.replay.as_ref().and_then(|path| {
		let v: Value = serde_json::from_str(&std::fs::read_to_string(path).expect("replay file")).expect("replay json");
		scn_from_json(&v["witness"]["scenario"])
	});
	let scn = match recorded {
		Some(s) => s,
		None => gen_scn(rng, k, with_faults),
	};
	let out = run_scn(&scn, &base);
	rep.eval();
	if out.watch_calls >= 2 {
		rep.nontrivial(out.hash);
	}
	rep.count("watch_unwatch_calls", out.watch_calls as u64);
	rep.count("changes_issued_from_inside_watcher_creation", out.fired_in_create as u64);
	rep.count("injected_failures_naming_several_paths", out.multi_path_failures as u64);
	rep.count("watcher_instances", out.instances as u64);
	rep.count("watcher_errors_at_handler", out.errors_seen as u64);
	rep.count("settled_histories_judged_for_once_per_attempt", out.settled as u64);
	if let Some(r) = out.inconclusive {
		rep.inconclusive(&r);
	}
	for (sig, what) in out.violations {
		// each property reports its own clauses
		let mine = if prop == "C15" { sig.starts_with("C15/") } else { sig.starts_with("C13/") };
		if mine {
			rep.violation(&sig, &what, json!({"scenario": scn_json(&scn), "watcher_log": out.log}));
		} else {
			rep.count(&format!("out_of_scope::{sig}"), 1);
		}
	}
	if k < 2 {
		rep.sample(json!({"scenario": scn_json(&scn), "watcher_log": out.log.iter().take(20).collect::<Vec<_>>()}));
	}
	let _ = WARNED.load(Ordering::Relaxed);
}


/// C15: faults raised from the watcher's own callback — unreadable events (`Err(notify::Error)`) and event-queue
/// overflow behind a slow action handler. Each is passed to the error handler at most once, and nothing stops.
pub fn callback_faults(args: &ShardArgs, rng: &mut Rng, rep: &mut Report) {
	let base = args.scratch.join("c15-cb");
	std::fs::create_dir_all(base.join("a")).ok();
	let rt = tokio::runtime::Builder::new_multi_thread().worker_threads(3).enable_all().build().expect("runtime");
	let hb = Heartbeat::start();
	let rec = Arc::new(Mutex::new(Rec::default()));
	{
		let rec = rec.clone();
		watchexec::sources::fs::verif::set_factory(Some(Arc::new(move |kind, handler| {
			let handler: SharedHandler = Arc::new(Mutex::new(handler));
			let id = {
				let mut r = rec.lock().unwrap();
				r.instances.push(Inst { kind: kind_name(kind), registered: BTreeMap::new(), dropped: false });
				r.handlers.push(handler.clone());
				r.instances.len() - 1
			};
			Ok(Box::new(FakeWatcher { id, rec: rec.clone(), _handler: handler }) as Box<dyn notify::Watcher + Send>)
		})));
	}
	let nerr = 1 + rng.usize(5);
	let nflood = 20 + rng.usize(60);
	let nsync = if rng.chance(1, 2) { 1 + rng.usize(2) } else { 0 };
	rec.lock().unwrap().sync_cb_errors = nsync;
	rep.count("callback_errors_reported_from_inside_watch", nsync as u64);
	let err_chan = *rng.pick(&[1usize, 2, 64]);
	let errors: Arc<Mutex<Vec<String>>> = Arc::new(Mutex::new(vec![]));
	let delivered: Arc<Mutex<Vec<String>>> = Arc::new(Mutex::new(vec![]));
	let probe_seen = Arc::new(AtomicBool::new(false));
	let (main_ok, setup_ok) = rt.block_on(async {
		let mut config = Config::default();
		config.event_channel_size = 1;
		config.error_channel_size = err_chan;
		config.throttle(Duration::from_millis(0));
		let d = delivered.clone();
		let ps = probe_seen.clone();
		config.on_action(move |mut action| {
			let events = action.events.clone();
			for e in events.iter() {
				if e.metadata.contains_key("verif-quit") {
					action.quit();
				}
				if e.metadata.contains_key("verif-probe") {
					ps.store(true, Ordering::SeqCst);
				}
				if let Some(i) = e.metadata.get("file-event-info").and_then(|v| v.first()) {
					d.lock().unwrap().push(i.clone());
				}
			}
			std::thread::sleep(Duration::from_millis(3));
			action
		});
		let er = errors.clone();
		config.on_error(move |hook: ErrorHook| {
			er.lock().unwrap().push(format!("{:?}", hook.error));
		});
		let wx = Watchexec::with_config(config).expect("with_config");
		let main = wx.main();
		wx.config.pathset([base.join("a")]);
		let t0 = std::time::Instant::now();
		while rec.lock().unwrap().handlers.is_empty() && t0.elapsed() < Duration::from_secs(5) {
			tokio::time::sleep(Duration::from_millis(2)).await;
		}
		let Some(handler) = rec.lock().unwrap().handlers.first().cloned() else {
			return (false, false);
		};
		// the watcher's own thread delivers unreadable events and a flood
		let base2 = base.clone();
		let feeder = std::thread::spawn(move || {
			let mut h = handler.lock().unwrap();
			for i in 0..nflood {
				if i < nerr {
					(*h)(Err(notify::Error::generic(&format!("verif-callback-error-{i}-"))));
				}
				let mut ev = notify::Event::new(notify::EventKind::Create(notify::event::CreateKind::File)).add_path(base2.join(format!("a/f{i}")));
				ev.attrs.set_info(&format!("flood-{i}"));
				(*h)(Ok(ev));
			}
		});
		feeder.join().ok();
		tokio::time::sleep(Duration::from_millis(300)).await;
		let mut md = std::collections::HashMap::new();
		md.insert("verif-probe".to_string(), vec!["1".into()]);
		wx.send_event(Event { tags: vec![Tag::Source(Source::Internal)], metadata: md }, Priority::Urgent).await.ok();
		let t1 = std::time::Instant::now();
		while !probe_seen.load(Ordering::SeqCst) && t1.elapsed() < Duration::from_secs(5) {
			tokio::time::sleep(Duration::from_millis(2)).await;
		}
		let mut md = std::collections::HashMap::new();
		md.insert("verif-quit".to_string(), vec!["1".into()]);
		wx.send_event(Event { tags: vec![], metadata: md }, Priority::Urgent).await.ok();
		let r = tokio::time::timeout(Duration::from_secs(10), main).await;
		(matches!(r, Ok(Ok(Ok(())))), true)
	});
	watchexec::sources::fs::verif::set_factory(None);
	rt.shutdown_timeout(Duration::from_millis(200));
	let gap = hb.take_max_gap();
	rep.eval();
	if !setup_ok {
		rep.inconclusive("callback-fault-setup-failed");
		return;
	}
	let errs = errors.lock().unwrap().clone();
	let dl = delivered.lock().unwrap().clone();
	rep.count("callback_errors_injected", nerr as u64);
	rep.count("callback_flood_events", nflood as u64);
	rep.count("callback_errors_at_handler", errs.len() as u64);
	let mut f = Fnv::default();
	f.u64(errs.len().min(20) as u64).u64(dl.len().min(20) as u64).u64(err_chan as u64);
	rep.nontrivial(f.finish());
	let wit = || json!({"injected_unreadable": nerr, "flood": nflood, "error_channel_size": err_chan, "errors": errs.iter().take(12).collect::<Vec<_>>(), "delivered": dl.len()});
	for i in 0..nerr {
		let n = errs.iter().filter(|e| e.contains(&format!("verif-callback-error-{i}-"))).count();
		if n > 1 {
			rep.violation("C15/callback-error/reported-twice", &format!("unreadable event #{i} from the watcher callback reached the error handler {n} times"), wit());
		}
	}
	for k in 0..nsync {
		let n = errs.iter().filter(|e| e.contains(&format!("verif-callback-error-sync{k}-"))).count();
		if n > 1 {
			rep.violation("C15/callback-error/reported-twice", &format!("error #{k} reported by the watcher from inside watch() reached the error handler {n} times"), wit());
		}
	}
	let overflow = errs.iter().filter(|e| e.contains("EventChannelTrySend")).count();
	let mut seen = std::collections::BTreeSet::new();
	for d in &dl {
		if !seen.insert(d.clone()) {
			rep.violation("C15/callback-flood/event-delivered-twice", &format!("flood event {d} was delivered twice"), wit());
		}
	}
	if overflow + seen.len() > nflood {
		rep.violation(
			"C15/callback-flood/more-outcomes-than-events",
			&format!("{nflood} events came out of the watcher callback but {} were delivered and {overflow} overflow errors were reported", seen.len()),
			wit(),
		);
	}
	let other: Vec<&String> = errs.iter().filter(|e| !e.contains("EventChannelTrySend") && !e.contains("verif-callback-error-")).collect();
	if let Some(o) = other.first() {
		rep.violation("C15/unexpected-runtime-error", &format!("unexpected runtime error: {}", o.chars().take(200).collect::<String>()), wit());
	}
	if gap < Duration::from_millis(500) {
		if !probe_seen.load(Ordering::SeqCst) {
			rep.violation("C15/callback-faults/later-event-not-processed", "an event sent after the callback faults was not processed within 5 s", wit());
		}
		if !main_ok {
			rep.violation("C15/callback-faults/main-did-not-end-ok", "the main task did not end with Ok(()) after callback faults and a quit", wit());
		}
	} else {
		rep.inconclusive("callback-faults-machine-stalled");
	}
}


struct RealWrap {
	inner: Box<dyn notify::Watcher + Send>,
}

impl notify::Watcher for RealWrap {
	fn new<F: notify::EventHandler>(_h: F, _c: NConfig) -> notify::Result<Self>
	where
		Self: Sized,
	{
		Err(notify::Error::generic("built by the factory only"))
	}
	fn watch(&mut self, path: &Path, mode: RecursiveMode) -> notify::Result<()> {
		self.inner.watch(path, mode)
	}
	fn unwatch(&mut self, path: &Path) -> notify::Result<()> {
		self.inner.unwatch(path)
	}
	fn kind() -> WatcherKind
	where
		Self: Sized,
	{
		WatcherKind::NullWatcher
	}
}

/// C13, behavioural variant with the real notify watchers: after a sequence of run-time changes has settled, a file
/// touched in each candidate directory produces an event exactly where the configured path set (with its recursion
/// modes) covers it.
pub fn real_variant(args: &ShardArgs, rng: &mut Rng, rep: &mut Report, k: usize) {
	let base = args.scratch.join(format!("c13-real-{k}"));
	std::fs::remove_dir_all(&base).ok();
	for d in ["a/c/deep", "b"] {
		std::fs::create_dir_all(base.join(d)).ok();
	}
	let base = base.canonicalize().unwrap();
	let seen: Arc<Mutex<Vec<PathBuf>>> = Arc::new(Mutex::new(vec![]));
	{
		let seen = seen.clone();
		watchexec::sources::fs::verif::set_factory(Some(Arc::new(move |kind, mut handler| {
			let seen = seen.clone();
			let tap = move |res: notify::Result<notify::Event>| {
				if let Ok(ev) = &res {
					seen.lock().unwrap().extend(ev.paths.iter().cloned());
				}
				handler(res);
			};
			let inner: Box<dyn notify::Watcher + Send> = match kind {
				Watcher::Poll(d) => Box::new(
					notify::PollWatcher::new(tap, NConfig::default().with_poll_interval(d)).map_err(|e| watchexec::error::CriticalError::External(e.to_string().into()))?,
				),
				_ => Box::new(notify::RecommendedWatcher::new(tap, NConfig::default()).map_err(|e| watchexec::error::CriticalError::External(e.to_string().into()))?),
			};
			Ok(Box::new(RealWrap { inner }) as Box<dyn notify::Watcher + Send>)
		})));
	}
	let rt = tokio::runtime::Builder::new_multi_thread().worker_threads(2).enable_all().build().expect("runtime");
	let hb = Heartbeat::start();
	// a few settled changes, the last one a non-empty path set
	// disjoint paths only: with nested watched paths notify itself drops the inner watches of a recursive parent when
	// the inner path is unwatched — the registered *set* still equals the configured one, which is what the property
	// (and the recording-watcher check) is about, so that interplay is not judged here
	let disjoint = |rng: &mut Rng| -> Vec<(String, bool)> {
		let mut v = vec![];
		for n in ["a", "b"] {
			if rng.chance(2, 3) {
				v.push((n.to_string(), rng.chance(1, 2)));
			}
		}
		v
	};
	let mut ops: Vec<Op> = vec![];
	for _ in 0..(1 + rng.usize(3)) {
		ops.push(match rng.below(4) {
			0 => Op::Kind(if rng.chance(1, 2) { None } else { Some(40) }),
			_ => Op::PathSet(disjoint(rng)),
		});
	}
	let mut last = disjoint(rng);
	if last.is_empty() {
		last.push(("a".into(), rng.chance(1, 2)));
	}
	ops.push(Op::PathSet(last.clone()));
	let poll = ops.iter().rev().find_map(|o| if let Op::Kind(k) = o { Some(k.is_some()) } else { None }).unwrap_or(false);
	let errs = Arc::new(ErrLog { recs: Mutex::new(vec![]), version: AtomicU64::new(0), pending_cb: Mutex::new(None) });
	let probes = ["a/p.txt", "a/c/p.txt", "a/c/deep/p.txt", "b/p.txt"];
	rt.block_on(async {
		let config = Config::default();
		config.throttle(Duration::from_millis(5));
		config.on_action(|mut action| {
			if action.events.iter().any(|e| e.metadata.contains_key("verif-quit")) {
				action.quit();
			}
			action
		});
		let wx = Arc::new(Watchexec::with_config(config).expect("with_config"));
		install_errh(&wx.config, &errs, 0, None);
		let main = wx.main();
		for op in &ops {
			apply(&wx.config, &base, op, &errs);
			tokio::time::sleep(Duration::from_millis(if poll { 150 } else { 60 })).await;
		}
		tokio::time::sleep(Duration::from_millis(if poll { 200 } else { 100 })).await;
		seen.lock().unwrap().clear();
		for p in probes {
			std::fs::write(base.join(p), "x").ok();
		}
		tokio::time::sleep(Duration::from_millis(if poll { 400 } else { 250 })).await;
		let mut md = std::collections::HashMap::new();
		md.insert("verif-quit".to_string(), vec!["1".into()]);
		wx.send_event(Event { tags: vec![], metadata: md }, Priority::Urgent).await.ok();
		tokio::time::timeout(Duration::from_secs(10), main).await.ok();
	});
	watchexec::sources::fs::verif::set_factory(None);
	rt.shutdown_timeout(Duration::from_millis(200));
	let gap = hb.take_max_gap();
	rep.eval();
	rep.count("real_watcher_scenarios", 1);
	let got: BTreeSet<PathBuf> = seen.lock().unwrap().iter().cloned().collect();
	let mut f = Fnv::default();
	for (p, r) in &last {
		f.str(p).u64(u64::from(*r));
	}
	f.u64(u64::from(poll)).u64(ops.len() as u64);
	rep.nontrivial(f.finish());
	let wit = || json!({"ops": ops.iter().map(|o| format!("{o:?}")).collect::<Vec<_>>(), "final_pathset": last, "poll": poll,
		"event_paths": got.iter().map(|p| p.strip_prefix(&base).unwrap_or(p).display().to_string()).collect::<Vec<_>>(),
		"errors": errs.recs.lock().unwrap().iter().map(|e| e.1.chars().take(120).collect::<String>()).collect::<Vec<_>>() });
	if gap >= Duration::from_millis(300) {
		rep.inconclusive("real-watcher-machine-stalled");
		std::fs::remove_dir_all(&base).ok();
		return;
	}
	for p in probes {
		let dir = Path::new(p).parent().unwrap().display().to_string();
		let covered = last.iter().any(|(w, rec)| dir == *w || (*rec && dir.starts_with(&format!("{w}/"))));
		let mentioned = got.contains(&base.join(p));
		rep.count("real_watcher_probes_judged", 1);
		if covered && !mentioned {
			rep.violation(
				"C13/real/covered-path-silent",
				&format!("{p} lies in the configured path set {last:?} but touching it produced no event from the {} watcher", if poll { "poll" } else { "native" }),
				wit(),
			);
		}
		if !covered && mentioned {
			rep.violation(
				"C13/real/uncovered-path-reported",
				&format!("{p} is outside the configured path set {last:?} but touching it produced an event"),
				wit(),
			);
		}
	}
	std::fs::remove_dir_all(&base).ok();
}
