//! E3: in-process Watchexec engine (real time): C01 C02 C15 (synthetic events through the real action
//! worker), C01 (real filesystem sources), C13/C15 (watcher registration with hook H1), C08 (quit).

mod checks;
mod synth;
mod watcher;
mod quit;
mod fsreal;
mod spawn;
mod reconf;

use std::collections::BTreeMap;

use checks::Finding;
use synth::{ErrBehaviour, EvSpec, HandlerKind, History, Kind, Synth, Verdict};
use vcommon::{json, Budget, Fnv, Report, Rng, ShardArgs, Value};
use watchexec_events::Priority;

fn judge(prop: &str, h: &History, s: &Synth) -> Vec<Finding> {
	match prop {
		"C01" => checks::c01(h, s),
		"C02" => checks::c02(h, s),
		"C15" => {
			let mut v = checks::c15(h, s);
			// the faulty event must be absent, all others delivered: the conservation oracle, restricted
			if matches!(s.err, ErrBehaviour::Ignore | ErrBehaviour::Slow(_) | ErrBehaviour::ReplaceSelf(_)) {
				v.extend(checks::c01(h, s).into_iter().map(|mut f| {
					f.sig = f.sig.replace("C01/", "C15/conservation/");
					f
				}));
			}
			v
		}
		_ => vec![],
	}
}

fn shape_hash(h: &History) -> (u64, bool) {
	// abstract trace: batch sizes and per-batch composition classes, times and ids erased
	let idx = synth::index(h);
	let mut f = Fnv::default();
	let mut nontrivial = false;
	for b in &h.batches {
		f.u64(b.ids.len().min(9) as u64);
		for id in &b.ids {
			if let Some(e) = idx.get(id) {
				f.str(match e.prio {
					Priority::Urgent => "U",
					Priority::High => "H",
					Priority::Normal => "N",
					Priority::Low => "L",
				});
			}
		}
		if b.ids.len() >= 2 {
			nontrivial = true;
		}
	}
	f.u64(h.errors.len().min(9) as u64);
	(f.finish(), nontrivial || h.batches.len() >= 2)
}

fn run_synth(prop: &str, s: &Synth, rep: &mut Report, sample: bool) {
	let h = synth::run(s);
	rep.eval();
	let (hash, nt) = shape_hash(&h);
	if nt {
		rep.nontrivial(hash);
	}
	rep.count("events_sent", h.sent.iter().filter(|e| e.ok).count() as u64);
	rep.count("events_delivered", h.batches.iter().map(|b| b.ids.len() as u64).sum());
	rep.count("batches", h.batches.len() as u64);
	rep.count("filter_calls", h.filter_calls.len() as u64);
	rep.count("errors_at_handler", h.errors.len() as u64);
	rep.count("flood_events", h.flood_sent);
	rep.max("max_heartbeat_gap_us", h.hb_max_gap.as_micros() as u64);
	if h.main_result.is_none() {
		rep.count("main_not_finished", 1);
	}
	let findings = judge(prop, &h, s);
	let wit = |h: &History| json!({"scenario": synth::synth_json(s), "history": synth::history_json(h, 60)});
	let mut confirmed_later: Vec<Finding> = vec![];
	for fd in findings {
		if !fd.needs_confirmation {
			rep.violation(&fd.sig, &fd.what, wit(&h));
		} else {
			confirmed_later.push(fd);
		}
	}
	if !confirmed_later.is_empty() {
		// suspect -> isolate -> confirm: timing-based suspicions must repeat in >= 4 of 5 healthy runs
		let mut hits: BTreeMap<String, usize> = BTreeMap::new();
		let mut healthy_runs = 0;
		let limit = confirmed_later.iter().map(|f| f.health_ms).min().unwrap_or(500);
		if checks::healthy(&h, limit) {
			healthy_runs += 1;
			// one hit per signature and run, however many events of the run show it
			let first: std::collections::BTreeSet<String> = confirmed_later.iter().map(|f| f.sig.clone()).collect();
			for sg in first {
				*hits.entry(sg).or_default() += 1;
			}
		}
		let mut last = h.clone();
		// a scenario that hangs costs its whole cap every time: fewer repetitions then, but all must agree
		let slow = h.wall > std::time::Duration::from_secs(6);
		let reruns = if slow { 2 } else { 4 };
		for _ in 0..reruns {
			let h2 = synth::run(s);
			if !checks::healthy(&h2, limit) {
				continue;
			}
			healthy_runs += 1;
			let sigs: std::collections::BTreeSet<String> = judge(prop, &h2, s).into_iter().filter(|f| f.needs_confirmation).map(|f| f.sig).collect();
			for sg in sigs {
				*hits.entry(sg).or_default() += 1;
			}
			last = h2;
		}
		rep.count("confirmation_reruns", 4);
		let mut seen = std::collections::BTreeSet::new();
		for fd in confirmed_later {
			if !seen.insert(fd.sig.clone()) {
				continue;
			}
			let n = *hits.get(&fd.sig).unwrap_or(&0);
			if (healthy_runs >= 4 && n >= 4) || (slow && healthy_runs == 3 && n == 3) {
				rep.violation(&fd.sig, &format!("{} (reproduced in {n} of {healthy_runs} healthy runs)", fd.what), wit(&last));
			} else {
				rep.inconclusive(&format!("unconfirmed-timing-suspicion::{}", fd.sig));
			}
		}
	}
	if sample {
		rep.sample(json!({"scenario": synth::synth_json(s), "history": synth::history_json(&h, 12)}));
	}
}

fn ev(prio: Priority, verdict: Verdict, gap_us: u64) -> EvSpec {
	EvSpec { prio, kind: Kind::Path, verdict, gap_us }
}

fn c02_scenario(rng: &mut Rng, i: usize) -> Synth {
	let theta = *rng.pick(&[0u64, 1, 5, 20, 50, 50, 200]);
	let mut s = synth::gen_synth(rng, false, true);
	s.throttle_ms = theta;
	s.chan = 4096;
	match i % 8 {
		0 => {
			// single event
			s.producers = vec![vec![ev(Priority::Normal, Verdict::Pass, 0)]];
		}
		1 => {
			// burst inside the window, then stragglers around the window end
			let mut p = vec![ev(Priority::Normal, Verdict::Pass, 0)];
			for _ in 0..(3 + rng.usize(10)) {
				p.push(ev(*rng.pick(&[Priority::Low, Priority::Normal, Priority::High]), Verdict::Pass, rng.below(theta * 1200 + 10)));
			}
			s.producers = vec![p];
		}
		2 => {
			// no starvation by rejected / erroring events
			s.producers = vec![vec![ev(Priority::Normal, Verdict::Pass, 0)]];
			s.starve_with = Some(if rng.chance(1, 2) { Verdict::Reject } else { Verdict::Error });
			// gentle (paused) or hostile (several producers, no pause: the queue is never empty) stream
			if rng.chance(1, 2) {
				s.flood_producers = 2 + rng.usize(3);
				s.flood_pause = false;
				s.producers = vec![vec![ev(*rng.pick(&[Priority::Normal, Priority::High]), Verdict::Pass, 0)]];
			}
			s.throttle_ms = *rng.pick(&[5u64, 20, 50, 200]);
			s.handler = HandlerKind::Sync(0);
			s.filter_delay_us = 0;
		}
		3 => {
			// run-time throttle changes, events before and after
			let a = *rng.pick(&[5u64, 20, 50]);
			let b = *rng.pick(&[100u64, 200, 400]);
			let (first, second) = if rng.chance(1, 2) { (a, b) } else { (b, a) };
			s.throttle_ms = first;
			s.throttle_changes = vec![(first + 60, second)];
			let mut p = vec![ev(Priority::Normal, Verdict::Pass, 0)];
			// second cycle starts well after the change
			p.push(ev(Priority::Normal, Verdict::Pass, (first + 60 + 80) * 1000));
			p.push(ev(Priority::Normal, Verdict::Pass, 3000));
			p.push(ev(Priority::High, Verdict::Pass, (second / 2) * 1000));
			s.producers = vec![p];
			s.handler = HandlerKind::Sync(0);
			s.filter_delay_us = 0;
		}
		4 => {
			// urgent into a half-filled long window, or urgent as the very first event of its cycle
			// ... or into a window that never ends by itself (`Duration::MAX`, or a day): nothing may be handed over
			// before the urgent event, which then brings everything collected with it
			s.throttle_ms = *rng.pick(&[400u64, 2000, 2000, synth::UNBOUNDED_MS, 86_400_000]);
			let urgent = ev(Priority::Urgent, *rng.pick(&[Verdict::Reject, Verdict::Error, Verdict::Pass]), 100_000);
			s.producers = if rng.chance(1, 2) || s.throttle_ms >= 86_400_000 {
				vec![vec![ev(Priority::Normal, Verdict::Pass, 0), ev(Priority::Low, Verdict::Pass, 20_000), urgent]]
			} else {
				vec![vec![urgent, ev(Priority::Normal, Verdict::Pass, 30_000)]]
			};
			s.handler = HandlerKind::Sync(0);
			s.filter_delay_us = 0;
		}
		5 => {
			// continuous accepted stream from several producers, handler slower than the window
			s.throttle_ms = *rng.pick(&[5u64, 20, 50]);
			s.handler = HandlerKind::Sync(rng.below(3 * s.throttle_ms * 1000 + 1));
			let per = 20 + rng.usize(40);
			s.producers = (0..(1 + rng.usize(3))).map(|_| (0..per).map(|_| ev(Priority::Normal, Verdict::Pass, rng.below(2000) + 100)).collect()).collect();
		}
		_ => {
			// mixed random
			s.producers = (0..(1 + rng.usize(3)))
				.map(|_| {
					let n = 5 + rng.usize(30);
					synth::gen_events(rng, n, theta, true)
				})
				.collect();
		}
	}
	s
}

fn c15_scenario(rng: &mut Rng, i: usize) -> Synth {
	let mut s = synth::gen_synth(rng, true, true);
	s.err = match i % 6 {
		0 => ErrBehaviour::Ignore,
		1 => ErrBehaviour::ElevateNth(rng.usize(3)),
		2 => ErrBehaviour::CriticalNth(rng.usize(3)),
		3 => ErrBehaviour::ReplaceSelf(rng.usize(3)),
		4 => ErrBehaviour::Slow(1 + rng.below(5)),
		_ => ErrBehaviour::Ignore,
	};
	// an elevation / critical error at the second or third error, with the hooks of the earlier ones kept alive
	if matches!(s.err, ErrBehaviour::ElevateNth(k) | ErrBehaviour::CriticalNth(k) if k >= 1) && rng.chance(1, 2) {
		s.retain_hooks = true;
	}
	// "under fire": the elevation happens while the action worker is busy reporting a long run of filter errors through a
	// roomy error queue, on a runtime with several threads: what main() returns is decided in a window a few instructions
	// wide (between the error hook dropping its receiver and its task being reported as finished), in which the worker's
	// next send must fail
	if matches!(s.err, ErrBehaviour::ElevateNth(_) | ErrBehaviour::CriticalNth(_)) && rng.chance(2, 3) {
		s.err_chan = 64;
		s.threads = s.threads.max(4);
		for _ in 0..2 {
			s.producers.push((0..(100 + rng.usize(100))).map(|_| ev(Priority::Normal, Verdict::Error, 0)).collect());
		}
	}
	// make sure there are enough erroring events, in bursts larger than the error queue
	let burst: Vec<EvSpec> = (0..(3 + rng.usize(12))).map(|_| ev(Priority::Normal, Verdict::Error, 0)).collect();
	s.producers.push(burst);
	if i % 6 == 5 {
		s.err_chan = 1;
	}
	s
}

fn main() {
	let args = ShardArgs::parse();
	let mut rep = Report::new();
	rep.max_violations = 40;
	let prop = args.prop.clone();
	let budget = Budget::new(args.budget);
	let mut rng = args.rng();

	if let Some(path) = &args.replay {
		let v: Value = serde_json::from_str(&std::fs::read_to_string(path).expect("replay file")).expect("replay json");
		if v["witness"]["scenario"].get("ops").is_some() {
			// a watcher scenario: re-run exactly that one (a few times: the interleaving is real-time)
			for k in 0..5 {
				watcher::run_one(&prop, &args, &mut rng, &mut rep, k);
				if !rep.violations.is_empty() {
					break;
				}
			}
			rep.write(&args);
			return;
		}
		eprintln!("replay of a synthetic real-time scenario re-runs the same shard with the recorded seed (best effort)");
	}

	if prop == "C08" || prop == "C18" {
		// harness self-test: the helper process must run and log by itself, otherwise nothing below means anything
		let vchild = std::env::var("VCHILD").unwrap_or_else(|_| "/verif/target/debug/vchild".into());
		let st = args.scratch.join("selftest.log");
		let ok = std::process::Command::new(&vchild)
			.args([st.display().to_string(), "selftest".into(), "--exit-after".into(), "1".into(), "--no-overlap-probe".into()])
			.stdin(std::process::Stdio::null())
			.status()
			.map(|s| s.success())
			.unwrap_or(false)
			&& std::fs::read_to_string(&st).map(|t| t.contains(" selftest start")).unwrap_or(false);
		if !ok {
			eprintln!("wxlib: the vchild helper ({vchild}) cannot be run: harness error");
			std::process::exit(3);
		}
	}
	match prop.as_str() {
		"C01" => {
			let mut i = 0usize;
			// a third of the budget on real filesystem sources, the rest on synthetic streams
			while !budget.exhausted() && budget.fraction() < 0.3 {
				fsreal::run_one(&args, &mut rng, &mut rep, i);
				i += 1;
			}
			let mut k = 0usize;
			while !budget.exhausted() {
				if k % 5 == 3 {
					// the filterer and the handler replaced while events flow
					reconf::run_one(&args, &mut rng, &mut rep, k);
					k += 1;
					continue;
				}
				let mut s = synth::gen_synth(&mut rng, true, !args.thorough() && k % 4 != 0);
				if k % 7 == 0 {
					// back pressure: tiny queue, slow handler
					s.chan = 1;
					s.handler = HandlerKind::Sync(2000 + rng.below(5000));
				}
				run_synth("C01", &s, &mut rep, k < 2);
				k += 1;
			}
		}
		"C02" => {
			let mut k = 0usize;
			while !budget.exhausted() {
				let s = c02_scenario(&mut rng, k + args.shard);
				run_synth("C02", &s, &mut rep, k < 2);
				k += 1;
			}
		}
		"C15" => {
			let mut k = 0usize;
			let mut wk = args.shard;
			while !budget.exhausted() {
				if k % 6 == 5 {
					watcher::callback_faults(&args, &mut rng, &mut rep);
				} else if k % 3 == 2 {
					// the watcher scenarios have their own counter (their templates rotate on it)
					watcher::run_one("C15", &args, &mut rng, &mut rep, wk);
					wk += 1;
				} else {
					let s = c15_scenario(&mut rng, k + args.shard);
					run_synth("C15", &s, &mut rep, k < 2);
				}
				k += 1;
			}
		}
		"C13" => {
			let mut k = 0usize;
			while !budget.exhausted() {
				if k % 5 == 4 {
					watcher::real_variant(&args, &mut rng, &mut rep, k);
				} else {
					watcher::run_one("C13", &args, &mut rng, &mut rep, k + args.shard);
				}
				k += 1;
			}
		}
		"C08" => {
			let mut k = 0usize;
			while !budget.exhausted() {
				quit::run_one(&args, &mut rng, &mut rep, k);
				k += 1;
			}
		}
		"C18" => {
			// spawning is CPU-bound: a fixed number of scenarios per shard in the quick tier (the budget is the ceiling), so
			// that the work done does not depend on the machine
			let quota: usize = args.extra.get("quota").and_then(|q| q.parse().ok()).unwrap_or(usize::MAX);
			let mut k = 0usize;
			while k < quota && !budget.exhausted() {
				spawn::run_one(&args, &mut rng, &mut rep, k);
				k += 1;
			}
			if k < quota && quota != usize::MAX {
				rep.note("cut short by the time budget before the scenario quota was reached");
			}
		}
		other => {
			eprintln!("wxlib engine: unknown property {other}");
			std::process::exit(2);
		}
	}
	rep.write(&args);
}
