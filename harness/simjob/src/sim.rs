//! Simulated child processes installed through the supervisor's *public* spawn hook, plus the
//! shared event log. All instants are tokio (virtual) time.

use std::{
	future::Future,
	io,
	os::unix::process::ExitStatusExt,
	process::ExitStatus,
	sync::{
		atomic::{AtomicU64, Ordering},
		Arc, Mutex,
	},
	time::Duration,
};

use process_wrap::tokio::{TokioChildWrapper, TokioCommandWrap, TokioCommandWrapper};
use tokio::{
	process::{Child, Command},
	sync::watch,
	time::Instant,
};
use vcommon::{json, Value};

/// How a simulated child behaves.
#[derive(Clone, Copy, Debug, PartialEq, Eq)]
pub struct Behaviour {
	/// exits by itself this long after being spawned (exit code `code`)
	pub self_exit: Option<Duration>,
	/// exits this long after the first catchable signal; None = ignores signals
	pub on_signal: Option<Duration>,
	pub code: i32,
}

impl Behaviour {
	pub const FOREVER: Self = Self { self_exit: None, on_signal: None, code: 0 };
	pub fn to_json(&self) -> Value {
		json!({"self_exit_ms": self.self_exit.map(|d| d.as_millis() as u64), "on_signal_ms": self.on_signal.map(|d| d.as_millis() as u64), "code": self.code})
	}
	pub fn from_json(v: &Value) -> Self {
		Self {
			self_exit: v["self_exit_ms"].as_u64().map(Duration::from_millis),
			on_signal: v["on_signal_ms"].as_u64().map(Duration::from_millis),
			code: v["code"].as_i64().unwrap_or(0) as i32,
		}
	}
}

/// Which calls of the simulated child fail (indices count calls of that kind across the scenario).
#[derive(Clone, Debug, Default, PartialEq, Eq)]
pub struct Faults {
	pub spawn: Vec<usize>,
	pub kill: Vec<usize>,
	pub signal: Vec<usize>,
	pub wait: Vec<usize>,
	/// the failing kill / signal calls report ESRCH ("no such process": what a process-group kill says once the group
	/// is empty, which says nothing about the child itself) instead of a generic error
	pub esrch: bool,
}

impl Faults {
	pub fn is_empty(&self) -> bool {
		self.spawn.is_empty() && self.kill.is_empty() && self.signal.is_empty() && self.wait.is_empty()
	}
	pub fn to_json(&self) -> Value {
		json!({"spawn": self.spawn, "kill": self.kill, "signal": self.signal, "wait": self.wait, "esrch": self.esrch})
	}
	pub fn from_json(v: &Value) -> Self {
		let l = |k: &str| v[k].as_array().map(|a| a.iter().filter_map(|x| x.as_u64().map(|n| n as usize)).collect()).unwrap_or_default();
		Self { spawn: l("spawn"), kill: l("kill"), signal: l("signal"), wait: l("wait"), esrch: v["esrch"].as_bool().unwrap_or(false) }
	}
}

#[derive(Clone, Debug, PartialEq, Eq)]
pub enum Ev {
	/// driver sent control `id` (priority 0/1/2)
	Send { id: usize },
	Hook { hook: u32, cur: String, prev: String },
	Spawn { k: usize, hook_env: Option<u32> },
	SpawnFail { attempt: usize },
	Signal { k: usize, sig: i32, failed: bool },
	StartKill { k: usize, failed: bool },
	Reaped { k: usize, status: i32, via: &'static str },
	WaitErr { k: usize },
	Dropped { k: usize, reaped: bool },
	ErrHandler { id: u32, msg: String },
	Marker { id: usize, cur: String, prev: String },
	MarkerExit { id: usize },
	Done { id: usize, waiter: usize },
	TaskEnd { panicked: bool },
	Note(String),
}

#[derive(Clone, Debug)]
pub struct Rec {
	pub t: Duration,
	pub step: u64,
	pub ev: Ev,
}

impl Rec {
	pub fn to_json(&self) -> Value {
		json!({"t_ms": self.t.as_secs_f64() * 1000.0, "ev": format!("{:?}", self.ev)})
	}
}

#[derive(Debug)]
pub struct World {
	pub start: Instant,
	pub log: Mutex<Vec<Rec>>,
	step: AtomicU64,
	pub behaviours: Vec<Behaviour>,
	pub faults: Faults,
	counters: Mutex<Counters>,
	/// online monitor output (C04): (signature, description)
	pub online: Mutex<Vec<(String, String)>>,
}

#[derive(Debug, Default)]
struct Counters {
	spawn_attempts: usize,
	spawned: usize,
	kills: usize,
	signals: usize,
	waits: usize,
	/// children spawned and not yet reaped: (k, dropped)
	live: Vec<(usize, bool)>,
}

impl World {
	pub fn new(behaviours: Vec<Behaviour>, faults: Faults) -> Arc<Self> {
		Arc::new(Self {
			start: Instant::now(),
			log: Mutex::new(Vec::new()),
			step: AtomicU64::new(0),
			behaviours,
			faults,
			counters: Mutex::new(Counters::default()),
			online: Mutex::new(Vec::new()),
		})
	}

	pub fn now(&self) -> Duration {
		Instant::now().duration_since(self.start)
	}

	pub fn log(&self, ev: Ev) {
		let rec = Rec { t: self.now(), step: self.step.fetch_add(1, Ordering::SeqCst), ev };
		self.log.lock().unwrap().push(rec);
	}

	pub fn take_log(&self) -> Vec<Rec> {
		self.log.lock().unwrap().clone()
	}

	fn behaviour(&self, k: usize) -> Behaviour {
		*self.behaviours.get(k).or(self.behaviours.last()).unwrap_or(&Behaviour::FOREVER)
	}

	pub fn live_children(&self) -> Vec<(usize, bool)> {
		self.counters.lock().unwrap().live.clone()
	}
}

/// The wrapper installed by the harness' spawn hook.
#[derive(Debug)]
pub struct SimWrap {
	pub world: Arc<World>,
	pub hook_env: Option<u32>,
}

impl TokioCommandWrapper for SimWrap {
	fn pre_spawn(&mut self, command: &mut Command, _core: &TokioCommandWrap) -> io::Result<()> {
		self.hook_env = command
			.as_std()
			.get_envs()
			.find(|(k, _)| *k == "VERIF_HOOK")
			.and_then(|(_, v)| v.and_then(|v| v.to_str()).and_then(|s| s.parse().ok()));
		let attempt = {
			let mut c = self.world.counters.lock().unwrap();
			let a = c.spawn_attempts;
			c.spawn_attempts += 1;
			a
		};
		if self.world.faults.spawn.contains(&attempt) {
			self.world.log(Ev::SpawnFail { attempt });
			return Err(io::Error::other(format!("injected spawn failure #{attempt}")));
		}
		Ok(())
	}

	fn wrap_child(&mut self, child: Box<dyn TokioChildWrapper>, _core: &TokioCommandWrap) -> io::Result<Box<dyn TokioChildWrapper>> {
		let world = self.world.clone();
		let hook_env = self.hook_env;
		let k = {
			// the monitor's state is updated together with the event it shadows, under one lock
			let mut c = world.counters.lock().unwrap();
			let k = c.spawned;
			c.spawned += 1;
			if !c.live.is_empty() {
				let desc = format!(
					"process #{k} spawned at {:?} while {:?} (k, dropped-without-reap) spawned earlier have not been reaped",
					world.now(),
					c.live
				);
				let sig = if c.live.iter().all(|l| l.1) { "C04/spawn-after-unreaped-drop" } else { "C04/two-live" };
				world.online.lock().unwrap().push((sig.to_string(), desc));
			}
			c.live.push((k, false));
			k
		};
		world.log(Ev::Spawn { k, hook_env });
		let b = world.behaviour(k);
		let exit = b.self_exit.map(|d| (Instant::now() + d, b.code << 8));
		let (tx, rx) = watch::channel(exit);
		Ok(Box::new(SimChild { world, k, real: child, tx, rx, beh: b, reaped: false, signalled: false }))
	}
}

#[derive(Debug)]
pub struct SimChild {
	world: Arc<World>,
	k: usize,
	real: Box<dyn TokioChildWrapper>,
	tx: watch::Sender<Option<(Instant, i32)>>,
	rx: watch::Receiver<Option<(Instant, i32)>>,
	beh: Behaviour,
	reaped: bool,
	signalled: bool,
}

impl SimChild {
	fn exit_no_later_than(&self, at: Instant, status: i32) {
		self.tx.send_if_modified(|cur| match cur {
			Some((t, _)) if *t <= at => false,
			_ => {
				*cur = Some((at, status));
				true
			}
		});
	}

	fn mark_reaped(&mut self, status: i32, via: &'static str) {
		if !self.reaped {
			self.reaped = true;
			let mut c = self.world.counters.lock().unwrap();
			c.live.retain(|l| l.0 != self.k);
			drop(c);
			self.world.log(Ev::Reaped { k: self.k, status, via });
		}
	}
}

impl Drop for SimChild {
	fn drop(&mut self) {
		if !self.reaped {
			let mut c = self.world.counters.lock().unwrap();
			for l in c.live.iter_mut() {
				if l.0 == self.k {
					l.1 = true;
				}
			}
		}
		self.world.log(Ev::Dropped { k: self.k, reaped: self.reaped });
	}
}

impl TokioChildWrapper for SimChild {
	fn inner(&self) -> &Child {
		self.real.inner()
	}
	fn inner_mut(&mut self) -> &mut Child {
		self.real.inner_mut()
	}
	fn into_inner(self: Box<Self>) -> Child {
		panic!("sim child has no inner child to give away")
	}

	fn id(&self) -> Option<u32> {
		Some(100_000 + self.k as u32)
	}

	fn start_kill(&mut self) -> io::Result<()> {
		let n = {
			let mut c = self.world.counters.lock().unwrap();
			let n = c.kills;
			c.kills += 1;
			n
		};
		let failed = self.world.faults.kill.contains(&n);
		self.world.log(Ev::StartKill { k: self.k, failed });
		if failed {
			return Err(if self.world.faults.esrch { io::Error::from_raw_os_error(libc::ESRCH) } else { io::Error::other(format!("injected kill failure #{n}")) });
		}
		self.exit_no_later_than(Instant::now(), 9);
		Ok(())
	}

	fn try_wait(&mut self) -> io::Result<Option<ExitStatus>> {
		let cur = *self.rx.borrow();
		match cur {
			Some((t, status)) if t <= Instant::now() => {
				self.mark_reaped(status, "try_wait");
				Ok(Some(ExitStatus::from_raw(status)))
			}
			_ => Ok(None),
		}
	}

	fn wait(&mut self) -> Box<dyn Future<Output = io::Result<ExitStatus>> + Send + '_> {
		Box::new(async move {
			let mut rx = self.rx.clone();
			let status = loop {
				let cur = *rx.borrow_and_update();
				match cur {
					Some((t, status)) => {
						tokio::select! {
							biased;
							() = tokio::time::sleep_until(t) => break status,
							_ = rx.changed() => {}
						}
					}
					None => {
						if rx.changed().await.is_err() {
							futures::future::pending::<()>().await;
						}
					}
				}
			};
			// one-shot injected wait failures, counted per completed wait
			let n = {
				let mut c = self.world.counters.lock().unwrap();
				let n = c.waits;
				c.waits += 1;
				n
			};
			if self.world.faults.wait.contains(&n) {
				self.world.log(Ev::WaitErr { k: self.k });
				return Err(io::Error::other(format!("injected wait failure #{n}")));
			}
			self.mark_reaped(status, "wait");
			Ok(ExitStatus::from_raw(status))
		})
	}

	fn signal(&self, sig: i32) -> io::Result<()> {
		let n = {
			let mut c = self.world.counters.lock().unwrap();
			let n = c.signals;
			c.signals += 1;
			n
		};
		let failed = self.world.faults.signal.contains(&n);
		self.world.log(Ev::Signal { k: self.k, sig, failed });
		if failed {
			return Err(if self.world.faults.esrch { io::Error::from_raw_os_error(libc::ESRCH) } else { io::Error::other(format!("injected signal failure #{n}")) });
		}
		if sig == 9 {
			self.exit_no_later_than(Instant::now(), 9);
		} else if let Some(d) = self.beh.on_signal {
			let _ = self.signalled;
			self.exit_no_later_than(Instant::now() + d, 0);
		}
		Ok(())
	}
}
