//! E1: virtual-time supervisor engine (C04 C06 C07 C09 C10).
//!
//! The real `start_job` task runs on a paused current-thread tokio runtime; the child process is a
//! simulation installed through the public spawn hook. Every scenario yields a trace which is
//! judged by (a) online/offline invariant monitors and (b) trace inclusion in the reference model.

mod exec;
mod gen;
mod model;
mod mt;
mod scn;
mod sim;

use std::collections::BTreeMap;

use scn::{Ending, Op, Scenario, Step, Waiters};
use sim::Ev;
use vcommon::{json, Budget, Fnv, Report, ShardArgs, Value};

/// Which divergence families a property reports.
fn families(prop: &str) -> &'static [&'static str] {
	match prop {
		"C06" => &["graceful", "lifecycle", "order"],
		"C07" => &["ticket", "end"],
		"C09" => &["graceful", "lifecycle", "order", "ticket", "end"],
		"C10" => &["order"],
		_ => &[],
	}
}

struct Judged {
	violations: Vec<(String, String)>,
	out_of_scope: Vec<String>,
	ties: u64,
	conforms: Option<bool>,
	inconclusive: Option<&'static str>,
}

fn judge(prop: &str, sc: &Scenario, tr: &exec::Trace, use_model: bool) -> Judged {
	let mut j = Judged { violations: vec![], out_of_scope: vec![], ties: 0, conforms: None, inconclusive: None };

	// ---- C04 invariant (online monitor inside the sim layer + offline recount) -----------------
	if prop == "C04" {
		for (sig, what) in &tr.online {
			j.violations.push((sig.clone(), what.clone()));
		}
		let mut live: Vec<usize> = vec![];
		for r in &tr.log {
			match &r.ev {
				Ev::Spawn { k, .. } => {
					if !live.is_empty() && tr.online.is_empty() {
						j.violations.push(("C04/two-live(offline)".into(), format!("spawn of #{k} at {:?} with {live:?} live", r.t)));
					}
					live.push(*k);
				}
				Ev::Reaped { k, .. } => live.retain(|x| x != k),
				_ => {}
			}
		}
	}

	// ---- C07 invariants that need no model ------------------------------------------------------
	if prop == "C07" || prop == "C09" {
		let ended_at = tr.log.iter().find(|r| matches!(r.ev, Ev::TaskEnd { .. })).map(|r| r.t);
		let should_end = sc.ending != Ending::None
			|| sc.ops().iter().any(|o| matches!(o, Op::Delete | Op::DeleteNow))
			|| sc.steps.iter().any(|s| matches!(s, Step::DropJob));
		match tr.task_finished {
			Some(true) => j.violations.push((format!("{prop}/end/task-panicked"), "the job task panicked instead of stopping gracefully".into())),
			None if should_end => j.violations.push((
				format!("{prop}/end/task-never-ends"),
				format!("the job was ended ({}) but its task is still alive 10^4 x the longest timer later", sc.ending.name()),
			)),
			_ => {}
		}
		if let (Some(end), Some(false)) = (ended_at, tr.task_finished) {
			for ti in &tr.tickets {
				for (slot, d) in ti.done.iter().enumerate() {
					// a Single waiter is sequential and a Late one may be created after the end
					if sc.waiters == Waiters::Single || sc.waiters == Waiters::Late {
						continue;
					}
					match d {
						None => j.violations.push((
							format!("{prop}/end/ticket-outlives-job/{}", ti.op.name()),
							format!("job task ended at {end:?} but ticket #{} ({}, waiter {slot}) never resolved", ti.id, ti.op.name()),
						)),
						Some(t) if *t > end + std::time::Duration::from_millis(1) && ti.sent_at <= end => j.violations.push((
							format!("{prop}/end/ticket-late-after-job-end/{}", ti.op.name()),
							format!("job task ended at {end:?} but ticket #{} resolved only at {t:?}", ti.id),
						)),
						_ => {}
					}
				}
			}
		}
	}

	// ---- a resolved ticket implies that its control has run (log order; C07 / C09 / C10) ------------
	if ["C07", "C09", "C10"].contains(&prop) && sc.faults.is_empty() {
		let pos = |pred: &dyn Fn(&Ev) -> bool, from: usize| tr.log.iter().enumerate().skip(from).find(|(_, r)| pred(&r.ev)).map(|(i, _)| i);
		// (by instant, not by log position: the end of the task wakes the waiters and the task monitor together)
		let task_end = pos(&|e| matches!(e, Ev::TaskEnd { .. }), 0).map(|i| tr.log[i].t);
		for ti in &tr.tickets {
			let id = ti.id;
			let Some(sent) = pos(&|e| matches!(e, Ev::Send { id: i } if *i == id), 0) else { continue };
			let Some(done) = pos(&|e| matches!(e, Ev::Done { id: i, .. } if *i == id), sent) else { continue };
			if task_end.map_or(false, |t| t <= tr.log[done].t) {
				continue; // the job ended first: every outstanding ticket resolves then
			}
			let effect = match ti.op {
				// the Start half of a restart: a spawn attempt (hook) after the send
				Op::Restart | Op::RestartSig { .. } => pos(&|e| matches!(e, Ev::Spawn { .. } | Ev::SpawnFail { .. }), sent),
				Op::Run | Op::MarkerPrio(_) => pos(&|e| matches!(e, Ev::Marker { id: i, .. } if *i == id), sent),
				Op::RunAsync { .. } | Op::Gate => pos(&|e| matches!(e, Ev::MarkerExit { id: i } if *i == id), sent),
				_ => continue,
			};
			if effect.map_or(true, |e| e > done) {
				j.violations.push((
					format!("{prop}/ticket/resolved-before-control-ran/{}", ti.op.name()),
					format!("ticket #{id} ({}) resolved at log position {done} but the control's effect {} (job still alive)", ti.op.name(), effect.map_or("never happened".to_string(), |e| format!("came later, at position {e}"))),
				));
			}
		}
	}

	// ---- C10 invariants: per priority FIFO, exactly once ---------------------------------------
	if prop == "C10" || prop == "C09" {
		let mut seen: BTreeMap<usize, u32> = BTreeMap::new();
		let mut last_per_prio: [Option<usize>; 3] = [None, None, None];
		let prio_of: BTreeMap<usize, u8> = tr.tickets.iter().map(|t| (t.id, t.op.priority())).collect();
		for r in &tr.log {
			if let Ev::Marker { id, .. } = &r.ev {
				*seen.entry(*id).or_default() += 1;
				let p = *prio_of.get(id).unwrap_or(&0) as usize;
				if let Some(prev) = last_per_prio[p] {
					if prev > *id {
						j.violations.push((
							format!("{prop}/order/fifo-violated/prio{p}"),
							format!("marker #{id} ran after marker #{prev} although it was sent earlier with the same priority"),
						));
					}
				}
				last_per_prio[p] = Some(*id);
			}
		}
		for (id, n) in &seen {
			if *n > 1 {
				j.violations.push((format!("{prop}/order/marker-ran-twice"), format!("marker #{id} ran {n} times")));
			}
		}
		// awaiting a ticket implies every earlier control of that priority has run (markers)
		for ti in &tr.tickets {
			if !matches!(ti.op, Op::Run | Op::MarkerPrio(_) | Op::RunAsync { .. } | Op::Gate) {
				continue;
			}
			let ran = tr.log.iter().find(|r| matches!(&r.ev, Ev::Marker { id, .. } if *id == ti.id)).map(|r| r.step);
			let done = tr.log.iter().find(|r| matches!(&r.ev, Ev::Done { id, .. } if *id == ti.id)).map(|r| r.step);
			let job_end = tr.log.iter().find(|r| matches!(r.ev, Ev::TaskEnd { .. })).map(|r| r.step);
			if let (None, Some(d)) = (ran, done) {
				if job_end.map_or(true, |e| e > d) && tr.task_finished.is_none() {
					j.violations.push((format!("{prop}/order/ticket-before-run"), format!("ticket of marker #{} resolved but the marker never ran and the job is alive", ti.id)));
				}
			}
		}
	}

	// ---- reference model ----------------------------------------------------------------------------
	if use_model && !families(prop).is_empty() {
		let out = model::check(sc, tr);
		j.ties = out.ties;
		j.conforms = Some(out.conforms);
		for d in out.divergences {
			if d.family == "inconclusive" {
				j.inconclusive = Some("model-search-limit");
				j.conforms = None;
			} else if families(prop).contains(&d.family) {
				j.violations.push((format!("{prop}/{}", d.sig), d.what));
			} else {
				j.out_of_scope.push(d.sig);
			}
		}
	}
	j
}

fn witness(sc: &Scenario, tr: &exec::Trace) -> Value {
	let mut log: Vec<Value> = tr.log.iter().map(sim::Rec::to_json).collect();
	if log.len() > 120 {
		log.truncate(120);
		log.push(json!("... truncated"));
	}
	json!({"scenario": sc.to_json(), "log": log,
		"tickets": tr.tickets.iter().map(|t| json!({"id": t.id, "op": t.op.name(), "sent_ms": t.sent_at.as_millis() as u64,
			"done_ms": t.done.iter().map(|d| d.map(|d| d.as_millis() as u64)).collect::<Vec<_>>()})).collect::<Vec<_>>(),
		"task_finished_panicked": tr.task_finished})
}

fn abstract_trace_hash(tr: &exec::Trace) -> (u64, bool) {
	// event kinds in order, times and ids erased
	let mut f = Fnv::default();
	let mut spawn = false;
	let mut other = false;
	for r in &tr.log {
		let k = match &r.ev {
			Ev::Send { .. } => "s",
			Ev::Hook { .. } => "h",
			Ev::Spawn { .. } => {
				spawn = true;
				"S"
			}
			Ev::SpawnFail { .. } => {
				other = true;
				"F"
			}
			Ev::Signal { .. } => {
				other = true;
				"g"
			}
			Ev::StartKill { .. } => {
				other = true;
				"K"
			}
			Ev::Reaped { .. } => "R",
			Ev::WaitErr { .. } => "W",
			Ev::Dropped { .. } => "D",
			Ev::ErrHandler { .. } => "E",
			Ev::Marker { .. } => "m",
			Ev::MarkerExit { .. } => "x",
			Ev::Done { .. } => "d",
			Ev::TaskEnd { .. } => "T",
			Ev::Note(_) => "n",
		};
		f.str(k);
	}
	(f.finish(), spawn && other)
}

fn run_one(prop: &str, sc: &Scenario, rep: &mut Report, use_model: bool, sample: bool) {
	let tr = exec::run_scenario(sc);
	if std::env::var_os("SIMJOB_TRACE").is_some() {
		for r in &tr.log {
			eprintln!("{:>9.1} ms  {:?}", r.t.as_secs_f64() * 1000.0, r.ev);
		}
		eprintln!("task_finished(panicked)={:?} tickets={:?}", tr.task_finished, tr.tickets.iter().map(|t| (t.id, t.op.name(), t.done.clone())).collect::<Vec<_>>());
	}
	rep.eval();
	let (h, nontrivial) = abstract_trace_hash(&tr);
	if nontrivial {
		rep.nontrivial(h);
	}
	rep.count("job_events", tr.log.len() as u64);
	rep.count("spawns", tr.log.iter().filter(|r| matches!(r.ev, Ev::Spawn { .. })).count() as u64);
	rep.count("kills", tr.log.iter().filter(|r| matches!(r.ev, Ev::StartKill { .. })).count() as u64);
	rep.count("signals", tr.log.iter().filter(|r| matches!(r.ev, Ev::Signal { .. })).count() as u64);
	rep.count("injected_faults_hit", tr.log.iter().filter(|r| matches!(r.ev, Ev::SpawnFail { .. } | Ev::WaitErr { .. } | Ev::Signal { failed: true, .. } | Ev::StartKill { failed: true, .. })).count() as u64);
	rep.count("tickets", tr.tickets.len() as u64);
	// timer-vs-exit orders at equal instants: kill and reap at the same instant on the same child
	for w in tr.log.windows(2) {
		if let (Ev::StartKill { k: a, .. }, Ev::Reaped { k: b, .. }) = (&w[0].ev, &w[1].ev) {
			if a == b && w[0].t == w[1].t {
				rep.count("forced_kill_reaps", 1);
			}
		}
	}
	let j = judge(prop, sc, &tr, use_model);
	rep.count("model_tie_points", j.ties);
	match j.conforms {
		Some(true) => rep.count("model_conforming_traces", 1),
		Some(false) => rep.count("model_nonconforming_traces", 1),
		None => {}
	}
	if let Some(r) = j.inconclusive {
		rep.inconclusive(r);
	}
	for s in j.out_of_scope {
		rep.count(&format!("out_of_scope::{s}"), 1);
	}
	for (sig, what) in j.violations {
		rep.violation(&sig, &what, witness(sc, &tr));
	}
	if sample {
		rep.sample(json!({"scenario": sc.to_json(), "observed": tr.log.iter().take(30).map(sim::Rec::to_json).collect::<Vec<_>>()}));
	}
}

fn main() {
	std::panic::set_hook(Box::new(|_| {}));
	let args = ShardArgs::parse();
	let mut rep = Report::new();
	rep.max_violations = 60;
	let prop = args.prop.clone();
	if !["C04", "C06", "C07", "C09", "C10"].contains(&prop.as_str()) {
		eprintln!("simjob: unknown property {prop}");
		std::process::exit(2);
	}

	if let Some(path) = &args.replay {
		let v: Value = serde_json::from_str(&std::fs::read_to_string(path).expect("replay file")).expect("replay json");
		let sc = Scenario::from_json(&v["witness"]["scenario"]).expect("scenario in replay file");
		// ties are resolved by the seeded select!: try the recorded seed first, then neighbours
		for d in 0..16u64 {
			let mut s = sc.clone();
			s.rng_seed = sc.rng_seed.wrapping_add(d);
			run_one(&prop, &s, &mut rep, true, d == 0);
			if !rep.violations.is_empty() {
				break;
			}
		}
		rep.write(&args);
		return;
	}

	let budget = Budget::new(args.budget);
	let mut rng = args.rng();
	if args.extra.contains_key("mt-only") {
		// the ThreadSanitizer build runs only the multi-threaded workload
		let mut k = 0;
		while !budget.exhausted() {
			mt::run_one(&prop, &mut rng, &mut rep, k == 0);
			k += 1;
		}
		rep.write(&args);
		return;
	}
	let mut n = 0usize;
	// bounded-exhaustive part (sharded round-robin), then seeded random until the budget is used
	let exhaustive = gen::exhaustive(&prop, args.thorough());
	let total = exhaustive.len();
	let mut complete = true;
	for (i, sc) in exhaustive.into_iter().enumerate() {
		if !args.mine(i) {
			continue;
		}
		if budget.exhausted() {
			complete = false;
			break;
		}
		let mut sc = sc;
		sc.rng_seed = args.seed.wrapping_mul(1_000_003).wrapping_add(i as u64);
		run_one(&prop, &sc, &mut rep, true, n < 1);
		n += 1;
	}
	rep.count("exhaustive_scenarios_total", if args.shard == 0 { total as u64 } else { 0 });
	rep.exhaustive = Some(false);
	if !complete {
		rep.note("bounded-exhaustive part cut short by the time budget");
	}
	let mut r = 0u64;
	let mt_props = ["C04", "C07", "C10"].contains(&prop.as_str());
	// the quick tier explores a fixed number of random scenarios per shard (the time budget is only the upper limit), so
	// that the work done, and the evidence describing it, do not depend on how fast or loaded the machine is
	let quota: u64 = args.extra.get("quota").and_then(|q| q.parse().ok()).unwrap_or(u64::MAX);
	while r < quota && !budget.exhausted() && (budget.fraction() < 0.9) {
		if ["C07", "C09", "C10"].contains(&prop.as_str()) && r % 25 == 24 {
			// starting takes virtual time: a ticket that resolves before its control has run becomes visible
			let sc = gen::ticket_implies_effect(&mut rng);
			run_one(&prop, &sc, &mut rep, false, r == 24);
			rep.count("ticket_implies_effect_scenarios", 1);
		} else if mt_props && r % 80 == 79 {
			// concurrent senders on a multi-thread runtime, real clock (invariant oracles only)
			mt::run_one(&prop, &mut rng, &mut rep, r == 79);
		} else {
			let sc = gen::random(&prop, &mut rng, args.thorough());
			run_one(&prop, &sc, &mut rep, true, r < 2);
		}
		r += 1;
	}
	rep.count("random_scenarios", r);
	if r < quota && quota != u64::MAX {
		rep.note("random part cut short by the time budget before the scenario quota was reached");
	}
	rep.count("exhaustive_scenarios_run", n as u64);
	rep.write(&args);
}
