//! Executable reference model of the documented `Job` API (DESIGN.md appendix A) and the
//! trace-inclusion check: the observed trace must equal one trace of the (nondeterministic) model.
//!
//! Nondeterminism (explicit choice points, explored by DFS guided by the observed trace):
//!  * child exit and a ready control / expired timer at the same virtual instant — either first;
//!  * the driver and the job task both runnable at the same virtual instant — either first;
//!  * after the last `Job` handle was dropped: the task may end before or after draining what is queued.
//! Everything else follows the documentation: urgent before high before normal, FIFO inside a
//! priority, normal controls held back while a grace timer is armed, expired timer first.

use std::collections::VecDeque;

use crate::{
	exec::Trace,
	scn::{Ending, Op, Scenario, Step, Waiters},
	sim::{Behaviour, Ev, Faults},
};

#[derive(Clone, Debug, PartialEq, Eq)]
pub enum OEv {
	Hook { hook: u32, cur: String, prev: String },
	Spawn { k: usize, hook_env: Option<u32> },
	SpawnFail,
	Signal { k: usize, sig: i32, failed: bool },
	StartKill { k: usize, failed: bool },
	Reaped { k: usize, status: i32 },
	ErrHandler { id: u32 },
	Marker { id: usize, cur: String, prev: String },
	MarkerExit { id: usize },
	TaskEnd { panicked: bool },
}

impl OEv {
	pub fn kind(&self) -> &'static str {
		match self {
			OEv::Hook { .. } => "hook",
			OEv::Spawn { .. } => "spawn",
			OEv::SpawnFail => "spawn-fail",
			OEv::Signal { .. } => "signal",
			OEv::StartKill { .. } => "kill",
			OEv::Reaped { .. } => "reaped",
			OEv::ErrHandler { .. } => "error-handler",
			OEv::Marker { .. } => "marker",
			OEv::MarkerExit { .. } => "marker-exit",
			OEv::TaskEnd { panicked: false } => "task-end",
			OEv::TaskEnd { panicked: true } => "task-panic",
		}
	}
}

pub fn observed(tr: &Trace) -> Vec<(u64, OEv)> {
	tr.log
		.iter()
		.filter_map(|r| {
			let t = (r.t.as_nanos() as u64 + 500_000) / 1_000_000;
			let e = match &r.ev {
				Ev::Hook { hook, cur, prev } => OEv::Hook { hook: *hook, cur: cur.clone(), prev: prev.clone() },
				Ev::Spawn { k, hook_env } => OEv::Spawn { k: *k, hook_env: *hook_env },
				Ev::SpawnFail { .. } => OEv::SpawnFail,
				Ev::Signal { k, sig, failed } => OEv::Signal { k: *k, sig: *sig, failed: *failed },
				Ev::StartKill { k, failed } => OEv::StartKill { k: *k, failed: *failed },
				Ev::Reaped { k, status, .. } => OEv::Reaped { k: *k, status: *status },
				Ev::ErrHandler { id, .. } => OEv::ErrHandler { id: *id },
				Ev::Marker { id, cur, prev } => OEv::Marker { id: *id, cur: cur.clone(), prev: prev.clone() },
				Ev::MarkerExit { id } => OEv::MarkerExit { id: *id },
				Ev::TaskEnd { panicked } => OEv::TaskEnd { panicked: *panicked },
				_ => return None,
			};
			Some((t, e))
		})
		.collect()
}

fn status_tag(w: i32) -> String {
	if w == 0 {
		"ok".into()
	} else if w & 0x7f == 0 {
		format!("code{}", w >> 8)
	} else {
		format!("sig{}", w & 0x7f)
	}
}

fn os_signal(n: i32) -> i32 {
	if (1..=31).contains(&n) {
		n
	} else {
		15
	}
}

#[derive(Clone, Debug)]
enum Ctl {
	Start,
	Stop,
	GracefulStop { sig: i32, grace: u64 },
	TryRestart,
	TryGracefulRestart { sig: i32, grace: u64 },
	Signal(i32),
	Delete,
	NextEnding,
	Marker,
	AsyncHold(u64),
	Gate(u64),
	SetHook(u32),
	SetErrH(Option<u32>),
	/// unset_spawn_hook: nothing observable by itself (always followed by a SetHook before any spawn)
	UnsetHook,
}

#[derive(Clone, Debug)]
struct Msg {
	ctl: Ctl,
	/// ticket completed when this control completes (None: intermediate control of a pair)
	ticket: Option<usize>,
	/// id shown by marker closures
	id: usize,
}

#[derive(Clone, Debug, PartialEq)]
enum Cs {
	Pending,
	Running,
	Finished(i32),
}

#[derive(Clone, Debug)]
struct Child {
	k: usize,
	exit: Option<(u64, i32)>,
	beh: Behaviour,
	reaped: bool,
}

#[derive(Clone, Debug)]
enum Busy {
	Until(u64, usize, Option<usize>), // (time, marker id, ticket)
	Gate(u64, usize, Option<usize>),   // (epoch at creation, marker id, ticket)
}

#[derive(Clone, Debug)]
struct Timer {
	until: u64,
	restart: bool,
	ticket: Option<usize>,
}

#[derive(Clone, Debug)]
enum DriverWait {
	Ready,
	Until(u64),
	Ticket(usize, u64), // ticket id, timeout instant
	Finished,
}

#[derive(Clone, Debug)]
struct M {
	now: u64,
	cs: Cs,
	prev: Option<String>,
	child: Option<Child>,
	hook: u32,
	errh: Option<u32>,
	q: [VecDeque<Msg>; 3],
	timer: Option<Timer>,
	on_end: Vec<usize>,
	on_end_restart: Option<Option<usize>>,
	busy: Option<Busy>,
	spawn_attempts: usize,
	spawned: usize,
	kills: usize,
	signals: usize,
	done: Vec<Option<u64>>,
	ended: bool,
	handles_dropped: bool,
	gate_epoch: u64,
	// driver
	pc: usize,
	dwait: DriverWait,
	last_ticket: Option<usize>,
	// matching
	pos: usize,
	last_op: &'static str,
}

#[derive(Clone, Debug)]
pub struct Divergence {
	/// stable class of the divergence
	pub sig: String,
	pub what: String,
	/// clause family: "ticket", "order", "graceful", "lifecycle", "end"
	pub family: &'static str,
}

#[derive(Debug, Default)]
pub struct Outcome {
	pub conforms: bool,
	pub divergences: Vec<Divergence>,
	pub branches: u64,
	pub ties: u64,
	pub expected_done: Vec<Option<u64>>,
}

struct Ctx<'a> {
	sc: &'a Scenario,
	tr: &'a Trace,
	found: Option<Vec<Option<u64>>>,
	best_ticket_mismatch: Option<(Vec<Divergence>, Vec<Option<u64>>)>,
	event_matches: u64,
	obs: &'a [(u64, OEv)],
	program: &'a [Step],
	faults: &'a Faults,
	behaviours: &'a [Behaviour],
	big: u64,
	branches: u64,
	ties: u64,
	// frontier diagnostics
	best_pos: usize,
	best_expected: Vec<(u64, OEv, &'static str)>,
	best_end_mismatch: Option<String>,
	// complete event matches (with their ticket completion vectors)
	matches: Vec<Vec<Option<u64>>>,
	limit: u64,
}

pub fn full_program(sc: &Scenario, big: u64) -> Vec<Step> {
	let mut p = sc.steps.clone();
	p.push(Step::Sleep(sc.tail_ms));
	p.push(Step::Release);
	p.push(Step::Sleep(sc.tail_ms));
	match sc.ending {
		Ending::None => {}
		Ending::Delete => p.push(Step::Burst(vec![Op::Delete])),
		Ending::DeleteNow => p.push(Step::Burst(vec![Op::DeleteNow])),
		Ending::Drop => p.push(Step::DropJob),
	}
	p.push(Step::Sleep(big));
	p
}

impl M {
	fn emit(&mut self, cx: &mut Ctx<'_>, e: OEv) -> bool {
		match cx.obs.get(self.pos) {
			Some((t, o)) if *o == e && (*t == self.now || *t == self.now + 1) => {
				self.pos += 1;
				true
			}
			_ => {
				if self.pos > cx.best_pos {
					cx.best_pos = self.pos;
					cx.best_expected.clear();
				}
				if self.pos == cx.best_pos && cx.best_expected.len() < 6 {
					cx.best_expected.push((self.now, e, self.last_op));
				}
				false
			}
		}
	}

	fn complete(&mut self, ticket: Option<usize>) {
		if let Some(t) = ticket {
			if self.done[t].is_none() {
				self.done[t] = Some(self.now);
			}
		}
	}

	fn cs_tag(&self) -> String {
		match &self.cs {
			Cs::Pending => "P".into(),
			Cs::Running => "R".into(),
			Cs::Finished(w) => format!("F({})", status_tag(*w)),
		}
	}

	fn errh(&mut self, cx: &mut Ctx<'_>) -> bool {
		if let Some(id) = self.errh {
			return self.emit(cx, OEv::ErrHandler { id });
		}
		true
	}

	/// reset + hook + spawn; returns false on trace mismatch. `Ok(spawned?)`
	fn respawn(&mut self, cx: &mut Ctx<'_>) -> Option<bool> {
		self.prev = Some(self.cs_tag());
		self.cs = Cs::Pending;
		let prev = self.prev.clone().unwrap();
		if !self.emit(cx, OEv::Hook { hook: self.hook, cur: "P".into(), prev }) {
			return None;
		}
		let attempt = self.spawn_attempts;
		self.spawn_attempts += 1;
		if cx.faults.spawn.contains(&attempt) {
			if !self.emit(cx, OEv::SpawnFail) || !self.errh(cx) {
				return None;
			}
			return Some(false);
		}
		let k = self.spawned;
		self.spawned += 1;
		if !self.emit(cx, OEv::Spawn { k, hook_env: Some(self.hook) }) {
			return None;
		}
		let beh = *cx.behaviours.get(k).or(cx.behaviours.last()).unwrap_or(&Behaviour::FOREVER);
		self.child = Some(Child {
			k,
			exit: beh.self_exit.map(|d| (self.now + d.as_millis() as u64, beh.code << 8)),
			beh,
			reaped: false,
		});
		self.cs = Cs::Running;
		Some(true)
	}

	fn child_signal(&mut self, sig: i32) {
		let now = self.now;
		if let Some(c) = self.child.as_mut() {
			let new = if sig == 9 {
				Some((now, 9))
			} else {
				c.beh.on_signal.map(|d| (now + d.as_millis() as u64, 0))
			};
			if let Some((t, s)) = new {
				match c.exit {
					Some((t0, _)) if t0 <= t => {}
					_ => c.exit = Some((t, s)),
				}
			}
		}
	}

	/// forced stop of the running child: kill + wait. Some(true) = stopped, Some(false) = kill failed
	fn force_stop(&mut self, cx: &mut Ctx<'_>) -> Option<bool> {
		let k = self.child.as_ref().unwrap().k;
		let n = self.kills;
		self.kills += 1;
		let failed = cx.faults.kill.contains(&n);
		if !self.emit(cx, OEv::StartKill { k, failed }) {
			return None;
		}
		if failed {
			if !self.errh(cx) {
				return None;
			}
			return Some(false);
		}
		self.child_signal(9);
		let c = self.child.as_mut().unwrap();
		let status = c.exit.unwrap().1;
		if !c.reaped {
			c.reaped = true;
			if !self.emit(cx, OEv::Reaped { k, status }) {
				return None;
			}
		}
		self.cs = Cs::Finished(status);
		self.child = None;
		for t in std::mem::take(&mut self.on_end) {
			self.complete(Some(t));
		}
		Some(true)
	}

	fn end_task(&mut self, cx: &mut Ctx<'_>) -> bool {
		self.ended = true;
		self.child = None;
		self.timer = None;
		for i in 0..self.done.len() {
			if self.done[i].is_none() {
				self.done[i] = Some(self.now);
			}
		}
		self.emit(cx, OEv::TaskEnd { panicked: false })
	}

	/// process one control; false = trace mismatch on this branch
	fn process(&mut self, cx: &mut Ctx<'_>, m: Msg) -> bool {
		let running = self.cs == Cs::Running;
		match m.ctl {
			Ctl::Start => {
				self.last_op = "start";
				if !running && self.respawn(cx).is_none() {
					return false;
				}
				self.complete(m.ticket);
			}
			Ctl::Stop => {
				self.last_op = "stop";
				if running && self.force_stop(cx).is_none() {
					return false;
				}
				self.complete(m.ticket);
			}
			Ctl::GracefulStop { sig, grace } => {
				self.last_op = "stop_with_signal";
				if running {
					let k = self.child.as_ref().unwrap().k;
					let n = self.signals;
					self.signals += 1;
					let failed = cx.faults.signal.contains(&n);
					if !self.emit(cx, OEv::Signal { k, sig: os_signal(sig), failed }) {
						return false;
					}
					if failed {
						if !self.errh(cx) {
							return false;
						}
						self.complete(m.ticket);
					} else {
						self.child_signal(os_signal(sig));
						self.timer = Some(Timer { until: self.now + grace, restart: false, ticket: m.ticket });
					}
				} else {
					self.complete(m.ticket);
				}
			}
			Ctl::TryRestart => {
				self.last_op = "try_restart";
				if running {
					match self.force_stop(cx) {
						None => return false,
						Some(false) => {}
						Some(true) => {
							if self.respawn(cx).is_none() {
								return false;
							}
						}
					}
				}
				self.complete(m.ticket);
			}
			Ctl::TryGracefulRestart { sig, grace } => {
				self.last_op = "try_restart_with_signal";
				if running {
					let k = self.child.as_ref().unwrap().k;
					let n = self.signals;
					self.signals += 1;
					let failed = cx.faults.signal.contains(&n);
					if !self.emit(cx, OEv::Signal { k, sig: os_signal(sig), failed }) {
						return false;
					}
					if failed {
						if !self.errh(cx) {
							return false;
						}
						self.complete(m.ticket);
					} else {
						self.child_signal(os_signal(sig));
						self.timer = Some(Timer { until: self.now + grace, restart: true, ticket: m.ticket });
						self.on_end_restart = Some(m.ticket);
					}
				} else {
					self.complete(m.ticket);
				}
			}
			Ctl::Signal(sig) => {
				self.last_op = "signal";
				if running {
					let k = self.child.as_ref().unwrap().k;
					let n = self.signals;
					self.signals += 1;
					let failed = cx.faults.signal.contains(&n);
					if !self.emit(cx, OEv::Signal { k, sig: os_signal(sig), failed }) {
						return false;
					}
					if failed {
						if !self.errh(cx) {
							return false;
						}
					} else {
						self.child_signal(os_signal(sig));
					}
				}
				self.complete(m.ticket);
			}
			Ctl::Delete => {
				self.last_op = "delete";
				self.complete(m.ticket);
				return self.end_task(cx);
			}
			Ctl::NextEnding => {
				self.last_op = "to_wait";
				if running {
					if let Some(t) = m.ticket {
						self.on_end.push(t);
					}
				} else {
					self.complete(m.ticket);
				}
			}
			Ctl::Marker => {
				self.last_op = "run";
				let (cur, prev) = (self.cs_tag(), self.prev.clone().unwrap_or_else(|| "-".into()));
				if !self.emit(cx, OEv::Marker { id: m.id, cur, prev }) {
					return false;
				}
				self.complete(m.ticket);
			}
			Ctl::AsyncHold(ms) => {
				self.last_op = "run_async";
				let (cur, prev) = (self.cs_tag(), self.prev.clone().unwrap_or_else(|| "-".into()));
				if !self.emit(cx, OEv::Marker { id: m.id, cur, prev }) {
					return false;
				}
				self.busy = Some(Busy::Until(self.now + ms, m.id, m.ticket));
			}
			Ctl::Gate(epoch) => {
				self.last_op = "gate";
				let (cur, prev) = (self.cs_tag(), self.prev.clone().unwrap_or_else(|| "-".into()));
				if !self.emit(cx, OEv::Marker { id: m.id, cur, prev }) {
					return false;
				}
				self.busy = Some(Busy::Gate(epoch, m.id, m.ticket));
			}
			Ctl::SetHook(h) => {
				self.last_op = "set_spawn_hook";
				self.hook = h;
				self.complete(m.ticket);
			}
			Ctl::SetErrH(h) => {
				self.last_op = "set_error_handler";
				self.errh = h;
				self.complete(m.ticket);
			}
			Ctl::UnsetHook => {
				self.last_op = "unset_spawn_hook";
				self.complete(m.ticket);
			}
		}
		true
	}

	fn exit_ready(&self) -> bool {
		self.cs == Cs::Running && self.child.as_ref().map_or(false, |c| matches!(c.exit, Some((t, _)) if t <= self.now))
	}

	fn recv_ready(&self) -> bool {
		self.timer.as_ref().map_or(false, |t| t.until <= self.now)
			|| !self.q[2].is_empty()
			|| !self.q[1].is_empty()
			|| (self.timer.is_none() && !self.q[0].is_empty())
	}

	fn job_enabled(&self) -> bool {
		if self.ended {
			return false;
		}
		match &self.busy {
			Some(Busy::Until(t, ..)) => *t <= self.now,
			Some(Busy::Gate(e, ..)) => self.gate_epoch > *e,
			None => self.exit_ready() || self.recv_ready() || (self.handles_dropped && !self.ended),
		}
	}

	fn driver_enabled(&self) -> bool {
		match &self.dwait {
			DriverWait::Ready => true,
			DriverWait::Until(t) => *t <= self.now,
			DriverWait::Ticket(id, timeout) => self.done[*id].map_or(false, |d| d <= self.now) || *timeout <= self.now,
			DriverWait::Finished => false,
		}
	}

	fn next_time(&self) -> Option<u64> {
		let mut t: Option<u64> = None;
		let mut upd = |x: u64| t = Some(t.map_or(x, |y: u64| y.min(x)));
		if !self.ended {
			match &self.busy {
				Some(Busy::Until(x, ..)) => upd(*x),
				Some(Busy::Gate(..)) => {}
				None => {
					if self.cs == Cs::Running {
						if let Some(Child { exit: Some((x, _)), .. }) = &self.child {
							upd(*x);
						}
					}
					if let Some(tm) = &self.timer {
						upd(tm.until);
					}
				}
			}
		}
		match &self.dwait {
			DriverWait::Until(x) => upd(*x),
			DriverWait::Ticket(id, timeout) => {
				upd(self.done[*id].map_or(*timeout, |d| d.min(*timeout)));
			}
			_ => {}
		}
		t.filter(|x| *x > self.now)
	}

	fn enqueue(&mut self, op: &Op, id: usize) {
		let p = op.priority() as usize;
		if self.ended {
			// sends to a dead job return an already-complete ticket
			self.done[id] = Some(self.now);
			return;
		}
		let one = |ctl: Ctl| vec![Msg { ctl, ticket: Some(id), id }];
		let two = |a: Ctl, b: Ctl| vec![Msg { ctl: a, ticket: None, id }, Msg { ctl: b, ticket: Some(id), id }];
		let msgs = match op {
			Op::Start => one(Ctl::Start),
			Op::Stop => one(Ctl::Stop),
			Op::Restart => two(Ctl::Stop, Ctl::Start),
			Op::TryRestart => one(Ctl::TryRestart),
			Op::StopSig { sig, grace_ms } => one(Ctl::GracefulStop { sig: *sig, grace: *grace_ms }),
			Op::RestartSig { sig, grace_ms } => two(Ctl::GracefulStop { sig: *sig, grace: *grace_ms }, Ctl::Start),
			Op::TryRestartSig { sig, grace_ms } => one(Ctl::TryGracefulRestart { sig: *sig, grace: *grace_ms }),
			Op::Signal(s) => one(Ctl::Signal(*s)),
			Op::ToWait | Op::RawNextEnding => one(Ctl::NextEnding),
			Op::Delete | Op::DeleteNow => two(Ctl::Stop, Ctl::Delete),
			// `Continue` is generated for C04 only and `SetAsyncHook` scenarios are judged by invariants alone: neither
			// reaches the model
			Op::Run | Op::MarkerPrio(_) | Op::Continue | Op::SetAsyncHook(_) => one(Ctl::Marker),
			Op::RunAsync { hold_ms } => one(Ctl::AsyncHold(*hold_ms)),
			Op::Gate => one(Ctl::Gate(self.gate_epoch)),
			Op::SetHook(h) => one(Ctl::SetHook(*h)),
			Op::UnsetHook => one(Ctl::UnsetHook),
			Op::SetErrH(h) => one(Ctl::SetErrH(Some(*h))),
			Op::UnsetErrH => one(Ctl::SetErrH(None)),
		};
		for m in msgs {
			self.q[p].push_back(m);
		}
	}

	/// run the driver until it blocks
	fn driver_run(&mut self, cx: &Ctx<'_>) {
		if let DriverWait::Ticket(..) | DriverWait::Until(_) | DriverWait::Ready = self.dwait {
			self.dwait = DriverWait::Ready;
		}
		while self.pc < cx.program.len() {
			let step = &cx.program[self.pc];
			self.pc += 1;
			match step {
				Step::Burst(ops) => {
					for op in ops {
						if self.handles_dropped {
							// no handle left to send with: the executor skips the send as well
							continue;
						}
						let id = self.done.len();
						self.done.push(None);
						self.last_ticket = Some(id);
						self.enqueue(op, id);
					}
				}
				Step::Sleep(ms) => {
					self.dwait = DriverWait::Until(self.now + ms);
					return;
				}
				Step::AwaitLast => {
					if let Some(id) = self.last_ticket {
						if self.done[id].map_or(true, |d| d > self.now) {
							self.dwait = DriverWait::Ticket(id, self.now + cx.big);
							return;
						}
					}
				}
				Step::Release => self.gate_epoch += 1,
				Step::DropJob => self.handles_dropped = true,
			}
		}
		self.dwait = DriverWait::Finished;
	}
}

fn explore(mut m: M, cx: &mut Ctx<'_>) {
	cx.branches += 1;
	if cx.branches > cx.limit || cx.found.is_some() {
		return;
	}
	loop {
		let je = m.job_enabled();
		let de = m.driver_enabled();
		if !je && !de {
			match m.next_time() {
				Some(t) => {
					m.now = t;
					continue;
				}
				None => {
					// quiescent: every observed event must have been consumed
					if m.pos == cx.obs.len() {
						// the event sequence matches on this branch: do the ticket instants match too?
						cx.event_matches += 1;
						let d = compare_tickets(cx.sc, cx.tr, &m.done);
						if d.is_empty() {
							cx.found = Some(m.done.clone());
						} else if cx.best_ticket_mismatch.as_ref().map_or(true, |b| d.len() < b.0.len()) {
							cx.best_ticket_mismatch = Some((d, m.done.clone()));
						}
					} else {
						if m.pos > cx.best_pos {
							cx.best_pos = m.pos;
							cx.best_expected.clear();
						}
						if m.pos == cx.best_pos {
							cx.best_end_mismatch = Some(format!("model is quiescent after {}", m.last_op));
						}
					}
					return;
				}
			}
		}
		if je && de {
			cx.ties += 1;
			let mut alt = m.clone();
			alt.driver_run(cx);
			explore(alt, cx);
			if !job_step(&mut m, cx) {
				return;
			}
			continue;
		}
		if de {
			m.driver_run(cx);
			continue;
		}
		if !job_step(&mut m, cx) {
			return;
		}
	}
}

/// One iteration of the job task. Forks on internal ties. Returns false when this branch died.
fn job_step(m: &mut M, cx: &mut Ctx<'_>) -> bool {
	// finishing an async marker
	match m.busy.clone() {
		Some(Busy::Until(_, id, ticket)) | Some(Busy::Gate(_, id, ticket)) => {
			m.busy = None;
			if !m.emit(cx, OEv::MarkerExit { id }) {
				return false;
			}
			m.complete(ticket);
			return true;
		}
		None => {}
	}
	let ex = m.exit_ready();
	let rc = m.recv_ready();
	if m.handles_dropped && !ex && !rc {
		// closed and drained queue: the task stops gracefully
		return m.end_task(cx) && false_if_more(m, cx);
	}
	if m.handles_dropped && (rc || ex) {
		// the closed queue is "ready" as well: the task may stop before draining / reaping
		cx.ties += 1;
		let mut alt = m.clone();
		if alt.end_task(cx) {
			explore(alt, cx);
		}
	}
	if ex && rc {
		cx.ties += 1;
		let mut alt = m.clone();
		if do_exit(&mut alt, cx) {
			explore(alt, cx);
		}
		return do_recv(m, cx);
	}
	if ex {
		return do_exit(m, cx);
	}
	do_recv(m, cx)
}

fn false_if_more(_m: &mut M, _cx: &mut Ctx<'_>) -> bool {
	true
}

fn do_exit(m: &mut M, cx: &mut Ctx<'_>) -> bool {
	let c = m.child.take().unwrap();
	let (_, status) = c.exit.unwrap();
	m.last_op = "child-exit";
	if !c.reaped && !m.emit(cx, OEv::Reaped { k: c.k, status }) {
		return false;
	}
	m.cs = Cs::Finished(status);
	// a pending graceful stop is over: its timer is disarmed and its ticket completes
	if let Some(t) = m.timer.take() {
		if !t.restart {
			m.complete(t.ticket);
		}
	}
	for t in std::mem::take(&mut m.on_end) {
		m.complete(Some(t));
	}
	if let Some(ticket) = m.on_end_restart.take() {
		m.last_op = "graceful-restart-continuation";
		if m.respawn(cx).is_none() {
			return false;
		}
		m.complete(ticket);
	}
	true
}

fn do_recv(m: &mut M, cx: &mut Ctx<'_>) -> bool {
	if m.timer.as_ref().map_or(false, |t| t.until <= m.now) {
		// expired timer vs urgent/high messages that became ready at the same instant: either order
		if !m.q[2].is_empty() || !m.q[1].is_empty() {
			cx.ties += 1;
			let mut alt = m.clone();
			let p = if !alt.q[2].is_empty() { 2 } else { 1 };
			let msg = alt.q[p].pop_front().unwrap();
			if alt.process(cx, msg) {
				explore(alt, cx);
			}
		}
		let t = m.timer.take().unwrap();
		if t.restart {
			m.last_op = "grace-expiry(restart)";
			m.on_end_restart = None;
			if m.cs == Cs::Running {
				match m.force_stop(cx) {
					None => return false,
					Some(false) => {
						m.complete(t.ticket);
						return true;
					}
					Some(true) => {}
				}
			}
			if m.respawn(cx).is_none() {
				return false;
			}
			m.complete(t.ticket);
		} else {
			m.last_op = "grace-expiry(stop)";
			if m.cs == Cs::Running && m.force_stop(cx).is_none() {
				return false;
			}
			m.complete(t.ticket);
		}
		return true;
	}
	for p in [2usize, 1, 0] {
		if p == 0 && m.timer.is_some() {
			break;
		}
		if let Some(msg) = m.q[p].pop_front() {
			return m.process(cx, msg);
		}
	}
	true
}

pub fn check(sc: &Scenario, tr: &Trace) -> Outcome {
	let obs = observed(tr);
	let big = sc.longest_ms().saturating_mul(10_000).max(3_600_000);
	let program = full_program(sc, big);
	let mut cx = Ctx {
		obs: &obs,
		program: &program,
		faults: &sc.faults,
		behaviours: &sc.behaviours,
		big,
		branches: 0,
		ties: 0,
		best_pos: 0,
		best_expected: vec![],
		best_end_mismatch: None,
		matches: vec![],
		limit: 200_000,
		sc,
		tr,
		found: None,
		best_ticket_mismatch: None,
		event_matches: 0,
	};
	let m = M {
		now: 0,
		cs: Cs::Pending,
		prev: None,
		child: None,
		hook: 0,
		errh: Some(0),
		q: [VecDeque::new(), VecDeque::new(), VecDeque::new()],
		timer: None,
		on_end: vec![],
		on_end_restart: None,
		busy: None,
		spawn_attempts: 0,
		spawned: 0,
		kills: 0,
		signals: 0,
		done: vec![],
		ended: false,
		handles_dropped: false,
		gate_epoch: 0,
		pc: 0,
		dwait: DriverWait::Ready,
		last_ticket: None,
		pos: 0,
		last_op: "init",
	};
	explore(m, &mut cx);
	let mut out = Outcome { branches: cx.branches, ties: cx.ties, ..Default::default() };
	if let Some(done) = cx.found {
		out.conforms = true;
		out.expected_done = done;
		return out;
	}
	if cx.branches > cx.limit {
		out.divergences.push(Divergence { sig: "model-search-limit".into(), what: "model search hit its branch limit".into(), family: "inconclusive" });
		return out;
	}
	if cx.event_matches == 0 {
		// event-level divergence
		let (obs_desc, obs_kind) = match obs.get(cx.best_pos) {
			Some((t, e)) => (format!("{e:?} at {t} ms"), e.kind()),
			None => ("nothing more (observed trace ends)".to_string(), "nothing"),
		};
		let mut kinds: Vec<&str> = cx.best_expected.iter().map(|x| x.1.kind()).collect();
		kinds.sort_unstable();
		kinds.dedup();
		let after = cx.best_expected.first().map_or("?", |x| x.2);
		let exp_desc = if cx.best_expected.is_empty() {
			cx.best_end_mismatch.clone().unwrap_or_else(|| "nothing".into())
		} else {
			cx.best_expected.iter().map(|(t, e, _)| format!("{e:?} at {t} ms")).collect::<Vec<_>>().join(" or ")
		};
		let exp_kinds = if kinds.is_empty() { "nothing".to_string() } else { kinds.join("|") };
		let family = classify_family(&exp_kinds, obs_kind);
		out.divergences.push(Divergence {
			sig: format!("event/after={after}/expected={exp_kinds}/observed={obs_kind}"),
			what: format!("after {after}: documented semantics expect {exp_desc}; observed {obs_desc} (job event #{})", cx.best_pos),
			family,
		});
		return out;
	}
	// the events match on some branch, the ticket instants on none
	if let Some((d, done)) = cx.best_ticket_mismatch {
		out.divergences = d;
		out.expected_done = done;
	}
	out
}

fn classify_family(expected: &str, observed: &str) -> &'static str {
	if observed == "task-panic" || expected.contains("task-end") || observed == "task-end" {
		"end"
	} else if expected.contains("marker") || observed == "marker" {
		// a control closure ran when something else was due, or something else ran when a closure was due
		"order"
	} else if expected.contains("kill") || observed == "kill" || expected.contains("signal") || observed == "signal" {
		"graceful"
	} else {
		"lifecycle"
	}
}

fn compare_tickets(sc: &Scenario, tr: &Trace, model_done: &[Option<u64>]) -> Vec<Divergence> {
	let mut out = vec![];
	let late = tr.late_created_at.map(|d| d.as_millis() as u64);
	let mut single_prev: u64 = 0;
	for ti in &tr.tickets {
		let Some(md) = model_done.get(ti.id) else { continue };
		let mut expect = *md;
		if let (Some(l), Some(e)) = (late, expect) {
			expect = Some(e.max(l));
		}
		if sc.waiters == Waiters::Single {
			match expect {
				Some(e) => {
					let e2 = e.max(single_prev);
					expect = Some(e2);
					single_prev = e2;
				}
				None => {
					// the single waiter is stuck here for good: later tickets are not observable
					if ti.done[0].is_some() {
						out.push(tdiv(ti.op.name(), "resolved-but-control-pending", format!("ticket #{} ({}) resolved at {:?} but per the documentation its control is still pending", ti.id, ti.op.name(), ti.done[0])));
					}
					break;
				}
			}
		}
		for (slot, got) in ti.done.iter().enumerate() {
			let got_ms = got.map(|d| (d.as_nanos() as u64 + 500_000) / 1_000_000);
			let ok = match (expect, got_ms) {
				(None, None) => true,
				(Some(e), Some(g)) => g == e || g == e + 1,
				_ => false,
			};
			if !ok {
				let class = match (expect, got_ms) {
					(Some(_), None) => "never-resolves",
					(None, Some(_)) => "resolved-but-control-pending",
					(Some(e), Some(g)) if g > e => "late",
					_ => "early",
				};
				out.push(tdiv(
					ti.op.name(),
					class,
					format!(
						"ticket #{} ({}, waiter {slot}, sent at {} ms): documented completion {:?} ms, observed {:?} ms",
						ti.id,
						ti.op.name(),
						ti.sent_at.as_millis(),
						expect,
						got_ms
					),
				));
			}
		}
	}
	out
}

fn tdiv(op: &str, class: &str, what: String) -> Divergence {
	Divergence { sig: format!("ticket/{op}/{class}"), what, family: "ticket" }
}
