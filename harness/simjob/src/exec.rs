//! Execute one scenario against the real supervisor on a paused (virtual-time) current-thread
//! runtime and return everything that was observed.

use std::{
	sync::{Arc, Mutex},
	time::Duration,
};

use tokio::{
	runtime::{Builder, RngSeed},
	sync::{mpsc, watch},
	task::JoinHandle,
};
use vcommon::{json, Value};
use watchexec_events::ProcessEnd;
use watchexec_signals::Signal;
use watchexec_supervisor::{
	command::{Command, Program},
	job::{start_job, CommandState, Control, Job, Ticket},
};

use crate::{
	scn::{ms, Ending, Op, Scenario, Step, Waiters},
	sim::{Ev, Rec, SimWrap, World},
};

#[derive(Clone, Debug)]
pub struct TicketInfo {
	pub id: usize,
	pub op: Op,
	pub sent_at: Duration,
	/// completion instants seen by each waiter (None = never resolved while observed)
	pub done: Vec<Option<Duration>>,
	/// true for the control(s) sent by the ending phase
	pub ending: bool,
}

#[derive(Clone, Debug, Default)]
pub struct Trace {
	pub log: Vec<Rec>,
	pub tickets: Vec<TicketInfo>,
	pub online: Vec<(String, String)>,
	pub steps_end: Duration,
	pub tail_end: Duration,
	pub end_sent_at: Option<Duration>,
	pub final_at: Duration,
	pub task_finished: Option<bool>, // Some(panicked) when the job task ended
	pub is_dead_after_end: Option<bool>,
	pub live_at_end: Vec<(usize, bool)>,
	pub await_last_timeouts: Vec<usize>,
	pub late_created_at: Option<Duration>,
}

impl Trace {
	pub fn job_events(&self) -> Vec<&Rec> {
		self.log
			.iter()
			.filter(|r| !matches!(r.ev, Ev::Send { .. } | Ev::Done { .. } | Ev::Note(_)))
			.collect()
	}

	pub fn to_json(&self) -> Value {
		json!({
			"log": self.log.iter().map(Rec::to_json).collect::<Vec<_>>(),
			"tickets": self.tickets.iter().map(|t| json!({
				"id": t.id, "op": t.op.name(), "sent_ms": t.sent_at.as_millis() as u64,
				"done_ms": t.done.iter().map(|d| d.map(|d| d.as_millis() as u64)).collect::<Vec<_>>(),
			})).collect::<Vec<_>>(),
			"task_finished_panicked": self.task_finished,
			"is_dead_after_end": self.is_dead_after_end,
		})
	}
}

pub fn state_tag(s: &CommandState) -> String {
	match s {
		CommandState::Pending => "P".into(),
		CommandState::Running { .. } => "R".into(),
		CommandState::Finished { status, .. } => format!("F({})", end_tag(status)),
	}
}

pub fn end_tag(e: &ProcessEnd) -> String {
	match e {
		ProcessEnd::Success => "ok".into(),
		ProcessEnd::ExitError(c) => format!("code{c}"),
		ProcessEnd::ExitSignal(s) => format!("sig{}", s.to_nix().map_or(-1, |n| n as i32)),
		ProcessEnd::ExitStop(c) => format!("stop{c}"),
		ProcessEnd::Exception(c) => format!("exc{c}"),
		ProcessEnd::Continued => "continued".into(),
	}
}

fn to_signal(n: i32) -> Signal {
	Signal::from(n)
}

struct Driver {
	world: Arc<World>,
	job: Option<Job>,
	tickets: Arc<Mutex<Vec<TicketInfo>>>,
	raw: Vec<Ticket>,
	waiters: Waiters,
	single_tx: Option<mpsc::UnboundedSender<(usize, Ticket)>>,
	gate_epoch: watch::Sender<u64>,
	handles: Vec<JoinHandle<()>>,
}

impl Driver {
	fn spawn_waiter(&mut self, id: usize, ticket: Ticket, slot: usize) {
		let world = self.world.clone();
		let tickets = self.tickets.clone();
		self.handles.push(tokio::spawn(async move {
			ticket.await;
			let now = world.now();
			world.log(Ev::Done { id, waiter: slot });
			let mut t = tickets.lock().unwrap();
			if let Some(ti) = t.get_mut(id) {
				if let Some(d) = ti.done.get_mut(slot) {
					*d = Some(now);
				}
			}
		}));
	}

	fn send(&mut self, op: &Op, ending: bool) -> Option<Ticket> {
		let job = self.job.as_ref()?.clone();
		let world = self.world.clone();
		let id = self.tickets.lock().unwrap().len();
		world.log(Ev::Send { id });
		let ticket = match op {
			Op::Start => job.start(),
			Op::Stop => job.stop(),
			Op::Restart => job.restart(),
			Op::TryRestart => job.try_restart(),
			Op::StopSig { sig, grace_ms } => job.stop_with_signal(to_signal(*sig), ms(*grace_ms)),
			Op::RestartSig { sig, grace_ms } => job.restart_with_signal(to_signal(*sig), ms(*grace_ms)),
			Op::TryRestartSig { sig, grace_ms } => job.try_restart_with_signal(to_signal(*sig), ms(*grace_ms)),
			Op::Signal(sig) => job.signal(to_signal(*sig)),
			Op::ToWait => job.to_wait(),
			Op::RawNextEnding => job.control(Control::NextEnding),
			Op::Delete => job.delete(),
			Op::DeleteNow => job.delete_now(),
			Op::Continue => job.control(Control::ContinueTryGracefulRestart),
			Op::Run => {
				let w = world.clone();
				job.run(move |ctx| {
					w.log(Ev::Marker { id, cur: state_tag(ctx.current), prev: ctx.previous.map_or("-".into(), state_tag) });
				})
			}
			Op::MarkerPrio(p) => {
				let w = world.clone();
				job.verif_send(
					Control::SyncFunc(Box::new(move |ctx| {
						w.log(Ev::Marker { id, cur: state_tag(ctx.current), prev: ctx.previous.map_or("-".into(), state_tag) });
					})),
					*p,
				)
			}
			Op::RunAsync { hold_ms } => {
				let w = world.clone();
				let hold = ms(*hold_ms);
				job.run_async(move |ctx| {
					w.log(Ev::Marker { id, cur: state_tag(ctx.current), prev: ctx.previous.map_or("-".into(), state_tag) });
					let w = w.clone();
					Box::new(async move {
						tokio::time::sleep(hold).await;
						w.log(Ev::MarkerExit { id });
					})
				})
			}
			Op::Gate => {
				let w = world.clone();
				let mut rx = self.gate_epoch.subscribe();
				let epoch = *rx.borrow();
				job.run_async(move |ctx| {
					w.log(Ev::Marker { id, cur: state_tag(ctx.current), prev: ctx.previous.map_or("-".into(), state_tag) });
					let w = w.clone();
					Box::new(async move {
						while *rx.borrow_and_update() <= epoch {
							if rx.changed().await.is_err() {
								break;
							}
						}
						w.log(Ev::MarkerExit { id });
					})
				})
			}
			Op::SetHook(hid) => set_hook(&job, &world, *hid),
			Op::SetAsyncHook(delay) => set_async_hook(&job, &world, *delay),
			Op::UnsetHook => job.unset_spawn_hook(),
			Op::SetErrH(eid) => set_errh(&job, &world, *eid),
			Op::UnsetErrH => job.unset_error_handler(),
		};
		let nslots = match self.waiters {
			Waiters::Clones(k) => k,
			Waiters::PollThenClone => 2,
			_ => 1,
		};
		self.tickets.lock().unwrap().push(TicketInfo {
			id,
			op: op.clone(),
			sent_at: world.now(),
			done: vec![None; nslots],
			ending,
		});
		self.raw.push(ticket.clone());
		match self.waiters {
			Waiters::TaskPerTicket => self.spawn_waiter(id, ticket.clone(), 0),
			Waiters::Clones(k) => {
				for slot in 0..k {
					self.spawn_waiter(id, ticket.clone(), slot);
				}
			}
			Waiters::Single => {
				if let Some(tx) = &self.single_tx {
					tx.send((id, ticket.clone())).ok();
				}
			}
			Waiters::PollThenClone => {
				let world = self.world.clone();
				let tickets = self.tickets.clone();
				let mut first = ticket.clone();
				self.handles.push(tokio::spawn(async move {
					let record = |slot: usize, world: &Arc<World>, tickets: &Arc<Mutex<Vec<TicketInfo>>>| {
						let now = world.now();
						world.log(Ev::Done { id, waiter: slot });
						if let Some(ti) = tickets.lock().unwrap().get_mut(id) {
							ti.done[slot] = Some(now);
						}
					};
					// one poll while (possibly) pending registers this task's waker, then the clone is made
					if futures::poll!(&mut first).is_ready() {
						record(0, &world, &tickets);
						record(1, &world, &tickets);
						return;
					}
					let second = first.clone();
					let (w2, t2) = (world.clone(), tickets.clone());
					let other = tokio::spawn(async move {
						second.await;
						let now = w2.now();
						w2.log(Ev::Done { id, waiter: 1 });
						if let Some(ti) = t2.lock().unwrap().get_mut(id) {
							ti.done[1] = Some(now);
						}
					});
					first.await;
					record(0, &world, &tickets);
					other.await.ok();
				}));
			}
			Waiters::Late => {
				if ending {
					self.spawn_waiter(id, ticket.clone(), 0);
				}
			}
		}
		Some(ticket)
	}
}

fn set_hook(job: &Job, world: &Arc<World>, hid: u32) -> Ticket {
	let w = world.clone();
	job.set_spawn_hook(move |cmd, ctx| {
		w.log(Ev::Hook { hook: hid, cur: state_tag(ctx.current), prev: ctx.previous.map_or("-".into(), state_tag) });
		cmd.command_mut().env("VERIF_HOOK", hid.to_string());
		cmd.wrap(SimWrap { world: w.clone(), hook_env: None });
	})
}

fn set_async_hook(job: &Job, world: &Arc<World>, delay_ms: u64) -> Ticket {
	let w = world.clone();
	job.set_spawn_async_hook(move |cmd, ctx| {
		w.log(Ev::Hook { hook: 1000 + delay_ms as u32, cur: state_tag(ctx.current), prev: ctx.previous.map_or("-".into(), state_tag) });
		cmd.command_mut().env("VERIF_HOOK", (1000 + delay_ms).to_string());
		cmd.wrap(SimWrap { world: w.clone(), hook_env: None });
		Box::new(async move {
			tokio::time::sleep(ms(delay_ms)).await;
		})
	})
}

fn set_errh(job: &Job, world: &Arc<World>, eid: u32) -> Ticket {
	let w = world.clone();
	if eid % 2 == 1 {
		// the async flavour of the handler (its future is ready at once, so the documented semantics are the sync one's)
		return job.set_async_error_handler(move |e| {
			w.log(Ev::ErrHandler { id: eid, msg: e.get().map(ToString::to_string).unwrap_or_default() });
			Box::new(std::future::ready(()))
		});
	}
	job.set_error_handler(move |e| {
		w.log(Ev::ErrHandler { id: eid, msg: e.get().map(ToString::to_string).unwrap_or_default() });
	})
}

pub fn run_scenario(sc: &Scenario) -> Trace {
	let mut seed_bytes = [0u8; 16];
	seed_bytes[..8].copy_from_slice(&sc.rng_seed.to_le_bytes());
	let rt = Builder::new_current_thread()
		.enable_all()
		.start_paused(true)
		.rng_seed(RngSeed::from_bytes(&seed_bytes))
		.build()
		.expect("runtime");
	let sc = sc.clone();
	let trace = rt.block_on(async move { drive(&sc).await });
	rt.shutdown_timeout(Duration::from_millis(50));
	trace
}

async fn drive(sc: &Scenario) -> Trace {
	let world = World::new(sc.behaviours.clone(), sc.faults.clone());
	let command = Arc::new(Command {
		program: Program::Exec { prog: "/bin/true".into(), args: vec![] },
		options: Default::default(),
	});
	let (job, task) = start_job(command);
	let task_abort = task.abort_handle();
	let task_mon = {
		let w = world.clone();
		tokio::spawn(async move {
			let res = task.await;
			let cancelled = res.as_ref().err().map_or(false, tokio::task::JoinError::is_cancelled);
			if !cancelled {
				w.log(Ev::TaskEnd { panicked: res.is_err() });
			}
			res.is_err()
		})
	};
	let mut task_mon = task_mon;
	// the sim child is installed through the public spawn hook; hook 0 and error handler 0 first
	set_hook(&job, &world, 0).await;
	set_errh(&job, &world, 0).await;

	let big = ms(sc.longest_ms().saturating_mul(10_000).max(3_600_000));
	let (gate_epoch, _) = watch::channel(0u64);
	let tickets = Arc::new(Mutex::new(Vec::new()));
	let mut d = Driver {
		world: world.clone(),
		job: Some(job.clone()),
		tickets: tickets.clone(),
		raw: Vec::new(),
		waiters: sc.waiters,
		single_tx: None,
		gate_epoch,
		handles: Vec::new(),
	};
	drop(job);
	if sc.waiters == Waiters::Single {
		let (tx, mut rx) = mpsc::unbounded_channel::<(usize, Ticket)>();
		d.single_tx = Some(tx);
		let w = world.clone();
		let tk = tickets.clone();
		d.handles.push(tokio::spawn(async move {
			while let Some((id, ticket)) = rx.recv().await {
				ticket.await;
				let now = w.now();
				w.log(Ev::Done { id, waiter: 0 });
				if let Some(ti) = tk.lock().unwrap().get_mut(id) {
					ti.done[0] = Some(now);
				}
			}
		}));
	}

	let mut trace = Trace::default();
	let mut job_dropped = false;
	for step in &sc.steps {
		match step {
			Step::Burst(ops) => {
				for op in ops {
					d.send(op, false);
				}
			}
			Step::Sleep(n) => tokio::time::sleep(ms(*n)).await,
			Step::AwaitLast => {
				if let Some(t) = d.raw.last().cloned() {
					if tokio::time::timeout(big, t).await.is_err() {
						trace.await_last_timeouts.push(d.raw.len() - 1);
					}
				}
			}
			Step::Release => {
				d.gate_epoch.send_modify(|e| *e += 1);
			}
			Step::DropJob => {
				d.job = None;
				job_dropped = true;
			}
		}
	}
	trace.steps_end = world.now();
	if sc.waiters == Waiters::Late {
		trace.late_created_at = Some(world.now());
		for (id, t) in d.raw.clone().into_iter().enumerate() {
			d.spawn_waiter(id, t, 0);
		}
	}
	tokio::time::sleep(ms(sc.tail_ms)).await;
	// release any gate still blocked so that the tail observes a quiescent job
	d.gate_epoch.send_modify(|e| *e += 1);
	tokio::time::sleep(ms(sc.tail_ms)).await;
	trace.tail_end = world.now();

	let mut expect_end = job_dropped;
	match sc.ending {
		Ending::None => {}
		Ending::Delete => {
			trace.end_sent_at = Some(world.now());
			d.send(&Op::Delete, true);
			expect_end = true;
		}
		Ending::DeleteNow => {
			trace.end_sent_at = Some(world.now());
			d.send(&Op::DeleteNow, true);
			expect_end = true;
		}
		Ending::Drop => {
			trace.end_sent_at = Some(world.now());
			d.job = None;
			expect_end = true;
		}
	}
	// any control in the scenario body may also have ended the job
	if sc.ops().iter().any(|o| matches!(o, Op::Delete | Op::DeleteNow)) {
		expect_end = true;
	}
	tokio::time::sleep(big).await;
	let _ = expect_end;
	if task_mon.is_finished() {
		trace.task_finished = (&mut task_mon).await.ok();
	}
	trace.is_dead_after_end = d.job.as_ref().map(Job::is_dead).or_else(|| d.raw.last().map(|_| true));
	trace.final_at = world.now();
	trace.live_at_end = world.live_children();
	for h in d.handles.drain(..) {
		h.abort();
	}
	task_abort.abort();
	task_mon.abort();
	trace.log = world.take_log();
	trace.tickets = tickets.lock().unwrap().clone();
	trace.online = world.online.lock().unwrap().clone();
	trace
}
