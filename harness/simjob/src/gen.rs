//! Scenario generators: bounded-exhaustive enumerations and seeded random scenarios per property.

use std::time::Duration;

use vcommon::Rng;

use crate::{
	scn::{Ending, Op, Scenario, Step, Waiters},
	sim::{Behaviour, Faults},
};

pub const G: u64 = 40;

fn d(ms: u64) -> Duration {
	Duration::from_millis(ms)
}

fn beh(self_exit: Option<u64>, on_signal: Option<u64>, code: i32) -> Behaviour {
	Behaviour { self_exit: self_exit.map(d), on_signal: on_signal.map(d), code }
}

/// Child behaviour classes relative to a grace period `g`.
pub fn behaviours(g: u64) -> Vec<Behaviour> {
	let mut v = vec![
		beh(None, None, 0),             // runs until killed, ignores signals
		beh(Some(20), None, 0),         // exits by itself
		beh(Some(30), Some(5), 3),      // exits by itself with an error code, reacts to signals
		beh(None, Some(g / 4), 0),      // exits shortly after a signal (inside the grace period)
		beh(None, Some(g), 0),          // exits exactly when the grace timer fires
		beh(None, Some(2 * g + 3), 0),  // reacts too late
		beh(Some(g), None, 0),          // exits by itself exactly at t = g (ties with timers armed at t = 0)
	];
	v.dedup();
	v
}

pub fn alphabet(g: u64) -> Vec<Op> {
	vec![
		Op::Start,
		Op::Stop,
		Op::Restart,
		Op::TryRestart,
		Op::StopSig { sig: 15, grace_ms: g },
		Op::RestartSig { sig: 15, grace_ms: g },
		Op::TryRestartSig { sig: 15, grace_ms: g },
		Op::Signal(10),
		Op::ToWait,
		Op::Run,
		Op::RunAsync { hold_ms: 7 },
		Op::Delete,
		Op::DeleteNow,
		Op::SetHook(1),
	]
}

fn sequences(alpha: &[Op], max_len: usize) -> Vec<Vec<Op>> {
	let mut out: Vec<Vec<Op>> = vec![];
	let mut level: Vec<Vec<Op>> = vec![vec![]];
	for _ in 0..max_len {
		let mut next = vec![];
		for s in &level {
			for a in alpha {
				let mut t = s.clone();
				t.push(a.clone());
				next.push(t);
			}
		}
		out.extend(next.iter().cloned());
		level = next;
	}
	out
}

fn with_pattern(seq: &[Op], pattern: usize, g: u64) -> Vec<Step> {
	match pattern {
		0 => vec![Step::Burst(seq.to_vec())],
		1 => seq.iter().flat_map(|o| [Step::Burst(vec![o.clone()]), Step::Sleep(g / 2)]).collect(),
		2 => seq.iter().flat_map(|o| [Step::Burst(vec![o.clone()]), Step::Sleep(g)]).collect(),
		3 => seq.iter().flat_map(|o| [Step::Burst(vec![o.clone()]), Step::Sleep(2 * g + 1)]).collect(),
		_ => seq.iter().flat_map(|o| [Step::Burst(vec![o.clone()]), Step::AwaitLast]).collect(),
	}
}

fn scenario(steps: Vec<Step>, behaviours: Vec<Behaviour>, faults: Faults, waiters: Waiters, ending: Ending) -> Scenario {
	Scenario { behaviours, faults, steps, waiters, tail_ms: 500, ending, rng_seed: 0 }
}

pub fn exhaustive(prop: &str, thorough: bool) -> Vec<Scenario> {
	match prop {
		"C06" => exhaustive_c06(thorough),
		"C10" => exhaustive_c10(thorough),
		_ => exhaustive_general(prop, thorough),
	}
}

fn exhaustive_general(prop: &str, thorough: bool) -> Vec<Scenario> {
	let g = G;
	let mut alpha = alphabet(g);
	if prop == "C04" {
		alpha.push(Op::Continue);
		alpha.push(Op::RestartSig { sig: 9, grace_ms: g });
	}
	let len = if thorough { 4 } else { 3 };
	let seqs = sequences(&alpha, len);
	let behs = behaviours(g);
	let mut out = vec![];
	let endings = [Ending::Delete, Ending::DeleteNow, Ending::Drop, Ending::None];
	let mut n = 0usize;
	for seq in &seqs {
		// in quick mode, length-3 sequences get a rotating subset of behaviours / patterns
		let full = thorough || seq.len() <= 2;
		for (bi, b) in behs.iter().enumerate() {
			for pattern in 0..4usize {
				n += 1;
				if !full && (n % 5 != 0) {
					continue;
				}
				let _ = bi;
				let steps = with_pattern(seq, pattern, g);
				let behv = vec![*b, behs[(n / 7) % behs.len()]];
				let ending = endings[n % endings.len()];
				let waiters = if prop == "C07" {
					[Waiters::TaskPerTicket, Waiters::Single, Waiters::Clones(3), Waiters::Late, Waiters::PollThenClone][n % 5]
				} else if n % 3 == 0 {
					Waiters::Single
				} else {
					Waiters::TaskPerTicket
				};
				out.push(scenario(steps, behv, Faults::default(), waiters, ending));
			}
		}
	}
	// fault enumeration on sequences up to length 2 (3 when thorough): each single fault position
	let fseqs = sequences(&alpha, if thorough { 3 } else { 2 });
	for seq in &fseqs {
		for (bi, b) in behs.iter().enumerate() {
			if !thorough && bi % 2 == 1 {
				continue;
			}
			for pattern in [0usize, 1] {
				let mut fl: Vec<Faults> = vec![
					Faults { spawn: vec![0], ..Default::default() },
					Faults { spawn: vec![1], ..Default::default() },
					Faults { kill: vec![0], ..Default::default() },
					Faults { kill: vec![0], esrch: true, ..Default::default() },
					Faults { signal: vec![0], ..Default::default() },
					Faults { spawn: vec![1], signal: vec![0], ..Default::default() },
				];
				if prop == "C04" || prop == "C07" {
					// wait failures are only judged by the invariant monitors (the model does not mirror them)
					fl.push(Faults { wait: vec![0], ..Default::default() });
					fl.push(Faults { wait: vec![1], kill: vec![0], ..Default::default() });
				}
				for f in fl {
					n += 1;
					// a start in front so that faults have a process to hit
					let mut s = vec![Op::Start];
					s.extend(seq.iter().cloned());
					let steps = with_pattern(&s, pattern, g);
					let ending = endings[n % endings.len()];
					let waiters = if prop == "C07" { [Waiters::TaskPerTicket, Waiters::Single, Waiters::Clones(2), Waiters::PollThenClone][n % 4] } else { Waiters::TaskPerTicket };
					out.push(scenario(steps, vec![*b], f, waiters, ending));
				}
			}
		}
	}
	if prop == "C04" || prop == "C07" {
		// wait-fault scenarios are invariant-only; mark by leaving them in (judge() skips the model for C04;
		// for C07 the model would reject the WaitErr event, so filter them out of model-based judging)
	}
	if prop != "C04" {
		out.retain(|s| s.faults.wait.is_empty());
	}
	out
}

fn exhaustive_c06(thorough: bool) -> Vec<Scenario> {
	let mut out = vec![];
	let graces: &[u64] = if thorough { &[0, 1, 40, 10_000] } else { &[0, 40, 10_000] };
	let sigs: &[i32] = if thorough { &[15, 2, 17, 0, 9, 1] } else { &[15, 17, 0, 9] };
	for &g in graces {
		let reactions: Vec<Option<u64>> = {
			let mut v = vec![None, Some(0), Some(g / 2), Some(g.saturating_sub(1)), Some(g), Some(g + 1), Some(2 * g + 3)];
			v.dedup();
			v
		};
		for &sig in sigs {
			for (ri, react) in reactions.iter().enumerate() {
				for self_exit in [None, Some(g / 2 + 5), Some(g + 5)] {
					// self_exit is relative to spawn; the graceful control is issued 5 ms after the start
					for gi in 0..3usize {
						let gop = match gi {
							0 => Op::StopSig { sig, grace_ms: g },
							1 => Op::RestartSig { sig, grace_ms: g },
							_ => Op::TryRestartSig { sig, grace_ms: g },
						};
						for state in 0..3usize {
							// 0: running, 1: never started, 2: finished
							if !thorough && state != 0 && (ri > 1 || self_exit.is_some()) {
								continue;
							}
							for behind in 0..6usize {
								if !thorough && (behind + ri + gi) % 2 == 1 && state == 0 && sig != 15 {
									continue;
								}
								let mut steps = vec![];
								match state {
									0 => steps.extend([Step::Burst(vec![Op::Start]), Step::Sleep(5)]),
									1 => {}
									_ => steps.extend([Step::Burst(vec![Op::Start, Op::Stop]), Step::Sleep(5)]),
								}
								let queued: Vec<Op> = match behind {
									0 => vec![],
									1 => vec![Op::Run],
									2 => vec![Op::Run, Op::ToWait, Op::MarkerPrio(1), Op::MarkerPrio(2)],
									3 => vec![Op::Start, Op::Run],
									4 => vec![Op::StopSig { sig: 15, grace_ms: g }, Op::Run],
									_ => vec![Op::RunAsync { hold_ms: 3 }, Op::Run, Op::MarkerPrio(2)],
								};
								let mut burst = vec![gop.clone()];
								if behind % 2 == 0 {
									burst.extend(queued.clone());
									steps.push(Step::Burst(burst));
								} else {
									steps.push(Step::Burst(burst));
									steps.push(Step::Sleep((g / 2).max(1)));
									steps.push(Step::Burst(queued.clone()));
								}
								// the replacement (if any) exits by itself later: a third spawn would show
								let first = Behaviour { self_exit: self_exit.map(d), on_signal: react.map(d), code: 0 };
								let second = beh(Some(3 * g + 50), Some(1), 0);
								let mut sc = scenario(steps, vec![first, second, beh(None, None, 0)], Faults::default(), Waiters::TaskPerTicket, Ending::Delete);
								sc.tail_ms = 4 * g + 200;
								out.push(sc);
							}
						}
					}
				}
			}
		}
	}
	out
}

fn exhaustive_c10(thorough: bool) -> Vec<Scenario> {
	let mut out = vec![];
	// all mixes of up to `n` controls over {normal marker, high marker, urgent marker, to_wait, start, stop}
	let alpha = vec![Op::Run, Op::MarkerPrio(1), Op::MarkerPrio(2), Op::ToWait, Op::Start, Op::Stop, Op::MarkerPrio(0), Op::RawNextEnding];
	let seqs = sequences(&alpha, if thorough { 5 } else { 4 });
	for (i, seq) in seqs.iter().enumerate() {
		// (a) burst hits an idle job task; (b) enqueued behind a gate, then released; (c) with an armed grace timer
		for mode in 0..4usize {
			if !thorough && seq.len() == 4 && (i + mode) % 3 != 0 {
				continue;
			}
			let steps = match mode {
				0 => vec![Step::Burst(seq.clone())],
				1 => vec![Step::Burst(vec![Op::Gate]), Step::Sleep(1), Step::Burst(seq.clone()), Step::Sleep(1), Step::Release],
				2 => vec![
					Step::Burst(vec![Op::Start]),
					Step::Sleep(2),
					Step::Burst(vec![Op::StopSig { sig: 15, grace_ms: G }]),
					Step::Sleep(3),
					Step::Burst(seq.clone()),
				],
				_ => vec![
					Step::Burst(vec![Op::Start, Op::Gate]),
					Step::Sleep(1),
					Step::Burst(seq.clone()),
					Step::Burst(vec![Op::DeleteNow]),
					Step::Sleep(1),
					Step::Release,
				],
			};
			let b = if mode == 2 { beh(None, None, 0) } else { beh(Some(25), Some(2), 0) };
			out.push(scenario(steps, vec![b], Faults::default(), Waiters::TaskPerTicket, Ending::Delete));
		}
	}
	out
}

/// "A resolved ticket implies its control has run": starting takes virtual time (suspending async spawn hook), no faults.
pub fn ticket_implies_effect(rng: &mut Rng) -> Scenario {
	let g = *rng.pick(&[0u64, 8, 40]);
	let alpha = [
		Op::Start,
		Op::Stop,
		Op::Restart,
		Op::Restart,
		Op::RestartSig { sig: 15, grace_ms: g },
		Op::RestartSig { sig: 15, grace_ms: g },
		Op::TryRestart,
		Op::StopSig { sig: 15, grace_ms: g },
		Op::Run,
		Op::Run,
		Op::RunAsync { hold_ms: 4 },
		Op::MarkerPrio(1),
		Op::ToWait,
		Op::Signal(10),
	];
	let mut steps = vec![Step::Burst(vec![Op::SetAsyncHook(*rng.pick(&[1u64, 3, 10]))])];
	if rng.chance(2, 3) {
		steps.push(Step::Burst(vec![Op::Start]));
		steps.push(Step::Sleep(*rng.pick(&[0u64, 1, 5, 20])));
	}
	let len = 2 + rng.usize(6);
	let mut burst = vec![];
	for _ in 0..len {
		burst.push(rng.pick(&alpha).clone());
		match rng.below(4) {
			0 => {}
			1 => {
				steps.push(Step::Burst(std::mem::take(&mut burst)));
				steps.push(Step::AwaitLast);
			}
			_ => {
				steps.push(Step::Burst(std::mem::take(&mut burst)));
				steps.push(Step::Sleep(*rng.pick(&[0u64, 1, 2, g, g + 1, 15, 30])));
			}
		}
	}
	if !burst.is_empty() {
		steps.push(Step::Burst(burst));
	}
	let behs: Vec<Behaviour> = (0..(1 + rng.usize(3)))
		.map(|_| Behaviour {
			self_exit: if rng.chance(1, 3) { Some(d(*rng.pick(&[5, 20, g + 5, 100]))) } else { None },
			on_signal: if rng.chance(2, 3) { Some(d(*rng.pick(&[0, 1, g / 2, g + 1, 3 * g]))) } else { None },
			code: 0,
		})
		.collect();
	let waiters = *rng.pick(&[Waiters::TaskPerTicket, Waiters::TaskPerTicket, Waiters::Clones(2), Waiters::PollThenClone]);
	let ending = *rng.pick(&[Ending::Delete, Ending::None, Ending::None]);
	let mut sc = scenario(steps, behs, Faults::default(), waiters, ending);
	sc.tail_ms = 300;
	sc.rng_seed = rng.next_u64();
	sc
}

pub fn random(prop: &str, rng: &mut Rng, thorough: bool) -> Scenario {
	let g = *rng.pick(&[0u64, 1, 8, 40, 40, 250]);
	let mut alpha = alphabet(g);
	alpha.extend([
		Op::MarkerPrio(1),
		Op::MarkerPrio(2),
		Op::SetErrH(1),
		Op::SetErrH(2),
		Op::UnsetErrH,
		Op::RawNextEnding,
		Op::Gate,
		Op::Signal(0),
		Op::Signal(9),
		Op::StopSig { sig: 17, grace_ms: g / 2 },
	]);
	if prop == "C10" {
		alpha.extend([Op::Run, Op::Run, Op::MarkerPrio(1), Op::MarkerPrio(2), Op::MarkerPrio(0), Op::ToWait]);
	}
	if prop == "C04" {
		alpha.extend([Op::Continue, Op::Continue]);
	}
	let len = 5 + rng.usize(if thorough { 12 } else { 8 });
	let mut steps = vec![];
	let mut burst = vec![];
	let mut deleted = false;
	for _ in 0..len {
		let mut op = rng.pick(&alpha).clone();
		if matches!(op, Op::Delete | Op::DeleteNow) {
			// at most one in-body deletion, and not too early
			if deleted || rng.chance(2, 3) {
				op = Op::Run;
			} else {
				deleted = true;
			}
		}
		// graceful controls with any signal, the forceful one included
		if rng.chance(1, 3) {
			let other = *rng.pick(&[9, 9, 2, 1, 0, 10]);
			op = match op {
				Op::StopSig { grace_ms, .. } => Op::StopSig { sig: other, grace_ms },
				Op::RestartSig { grace_ms, .. } => Op::RestartSig { sig: other, grace_ms },
				Op::TryRestartSig { grace_ms, .. } => Op::TryRestartSig { sig: other, grace_ms },
				o => o,
			};
		}
		burst.push(op);
		match rng.below(6) {
			0 | 1 => {}
			2 => {
				steps.push(Step::Burst(std::mem::take(&mut burst)));
				steps.push(Step::Sleep(*rng.pick(&[1, g / 2, g, g + 1, 2 * g, 20, 25, 7])));
			}
			3 => {
				steps.push(Step::Burst(std::mem::take(&mut burst)));
				if rng.chance(1, 2) {
					steps.push(Step::AwaitLast);
				} else {
					steps.push(Step::Release);
				}
			}
			_ => {
				steps.push(Step::Burst(std::mem::take(&mut burst)));
				steps.push(Step::Sleep(1 + rng.below(60)));
			}
		}
	}
	if !burst.is_empty() {
		steps.push(Step::Burst(burst));
	}
	// one scenario in ten starts by unsetting the spawn hook and setting another one, with an error handler installed
	// before: unsetting the hook touches nothing else (a spawn failure later must still reach that handler)
	let unset_prefix = rng.chance(1, 10);
	if unset_prefix {
		steps.insert(0, Step::Burst(vec![Op::SetErrH(7), Op::UnsetHook, Op::SetHook(3)]));
	}
	if rng.chance(1, 8) {
		steps.push(Step::DropJob);
	}
	let nb = 1 + rng.usize(3);
	let behs: Vec<Behaviour> = (0..nb)
		.map(|_| Behaviour {
			self_exit: if rng.chance(1, 2) { Some(d(*rng.pick(&[0, 5, 20, g, g + 5, 100]))) } else { None },
			on_signal: if rng.chance(2, 3) { Some(d(*rng.pick(&[0, 1, g / 2, g, g + 1, 3 * g]))) } else { None },
			code: *rng.pick(&[0, 0, 1, 3]),
		})
		.collect();
	let mut faults = Faults::default();
	faults.esrch = rng.chance(1, 2);
	if unset_prefix {
		faults.spawn.push(rng.usize(2));
	} else if rng.chance(1, 3) {
		match rng.below(if prop == "C04" { 4 } else { 3 }) {
			0 => faults.spawn.push(rng.usize(4)),
			1 => faults.kill.push(rng.usize(3)),
			2 => faults.signal.push(rng.usize(3)),
			_ => faults.wait.push(rng.usize(4)),
		}
	}
	let waiters = match (prop, rng.below(4)) {
		("C07", 0) => Waiters::Single,
		("C07", 1) => Waiters::Clones(2 + rng.usize(3)),
		("C07", 2) => Waiters::Late,
		("C07", 3) => Waiters::PollThenClone,
		(_, 0) => Waiters::Single,
		_ => Waiters::TaskPerTicket,
	};
	// a single sequential waiter and AwaitLast in the driver would be two waiting tasks: drop the awaits
	if waiters == Waiters::Single {
		steps.retain(|s| *s != Step::AwaitLast);
	}
	let ending = *rng.pick(&[Ending::Delete, Ending::DeleteNow, Ending::Drop, Ending::None]);
	let mut sc = scenario(steps, behs, faults, waiters, ending);
	sc.tail_ms = 4 * g + 300;
	sc.rng_seed = rng.next_u64();
	sc
}
