//! Multi-threaded, real-time variant of the supervisor engine: several concurrent sender tasks on a
//! multi-thread tokio runtime drive one job (simulated child, real clock). No reference model here —
//! the interleavings are the point — only invariant / ordering oracles:
//!   C04  never two live processes (online monitor in the sim layer);
//!   C10  per (sender, priority) markers run in send order, each exactly once;
//!   C07  every ticket resolves at the latest when the job ends; the task ends without panicking.
//! This is also the workload the ThreadSanitizer build runs.

use std::{
	collections::BTreeMap,
	sync::{
		atomic::{AtomicUsize, Ordering},
		Arc, Mutex,
	},
	time::Duration,
};

use vcommon::{json, Fnv, Report, Rng, Value};
use watchexec_signals::Signal;
use watchexec_supervisor::{
	command::{Command, Program},
	job::{start_job, Control, Job, Ticket},
};

use crate::{
	exec::state_tag,
	sim::{Behaviour, Ev, Faults, SimWrap, World},
};

#[derive(Clone, Debug)]
pub enum MtOp {
	Start,
	Stop,
	Restart,
	TryRestart,
	StopSig(u64),
	RestartSig(u64),
	TryRestartSig(u64),
	Signal,
	ToWait,
	Marker(u8),
	RunAsync(u64),
	Yield,
	Sleep(u64),
}

#[derive(Clone, Debug)]
pub struct MtScn {
	pub senders: Vec<Vec<MtOp>>,
	pub behaviours: Vec<Behaviour>,
	pub faults: Faults,
	pub threads: usize,
	pub end: u8, // 0 delete, 1 delete_now, 2 drop
}

pub fn gen(rng: &mut Rng) -> MtScn {
	let ns = 2 + rng.usize(3);
	let senders = (0..ns)
		.map(|_| {
			(0..(5 + rng.usize(25)))
				.map(|_| match rng.below(20) {
					0 => MtOp::Start,
					1 => MtOp::Stop,
					2 => MtOp::Restart,
					3 => MtOp::TryRestart,
					4 => MtOp::StopSig(*rng.pick(&[0u64, 2, 10])),
					5 => MtOp::RestartSig(*rng.pick(&[0u64, 2, 10])),
					6 => MtOp::TryRestartSig(*rng.pick(&[0u64, 2, 10])),
					7 => MtOp::Signal,
					8 => MtOp::ToWait,
					9 | 10 | 11 | 12 => MtOp::Marker(0),
					13 => MtOp::Marker(1),
					14 => MtOp::Marker(2),
					15 => MtOp::RunAsync(rng.below(3)),
					16 | 17 => MtOp::Yield,
					_ => MtOp::Sleep(rng.below(3)),
				})
				.collect()
		})
		.collect();
	let d = |ms: u64| Duration::from_millis(ms);
	let behaviours = (0..3)
		.map(|_| Behaviour {
			self_exit: if rng.chance(1, 2) { Some(d(*rng.pick(&[0, 1, 5, 20]))) } else { None },
			on_signal: if rng.chance(2, 3) { Some(d(*rng.pick(&[0, 1, 3, 15]))) } else { None },
			code: 0,
		})
		.collect();
	let mut faults = Faults::default();
	if rng.chance(1, 4) {
		match rng.below(4) {
			0 => faults.spawn.push(rng.usize(5)),
			1 => faults.kill.push(rng.usize(4)),
			2 => faults.signal.push(rng.usize(4)),
			_ => faults.wait.push(rng.usize(6)),
		}
	}
	MtScn { senders, behaviours, faults, threads: 2 + rng.usize(3), end: rng.below(3) as u8 }
}

pub fn scn_json(s: &MtScn) -> Value {
	json!({"senders": s.senders.iter().map(|v| v.iter().map(|o| format!("{o:?}")).collect::<Vec<_>>()).collect::<Vec<_>>(),
		"behaviours": s.behaviours.iter().map(Behaviour::to_json).collect::<Vec<_>>(), "faults": s.faults.to_json(), "threads": s.threads, "end": s.end})
}

struct Sent {
	sender: usize,
	seq: usize,
	prio: u8,
	is_marker: bool,
	name: &'static str,
}

pub struct MtOutcome {
	pub violations: Vec<(String, String)>,
	pub log_len: usize,
	pub spawns: usize,
	pub markers: usize,
	pub tickets: usize,
	pub hash: u64,
	pub log_sample: Vec<String>,
}

pub fn run(s: &MtScn) -> MtOutcome {
	let rt = tokio::runtime::Builder::new_multi_thread().worker_threads(s.threads).enable_all().build().expect("runtime");
	let out = rt.block_on(drive(s));
	rt.shutdown_timeout(Duration::from_millis(100));
	out
}

async fn drive(s: &MtScn) -> MtOutcome {
	let world = World::new(s.behaviours.clone(), s.faults.clone());
	let command = Arc::new(Command { program: Program::Exec { prog: "/bin/true".into(), args: vec![] }, options: Default::default() });
	let (job, task) = start_job(command);
	{
		let w = world.clone();
		job.set_spawn_hook(move |cmd, ctx| {
			w.log(Ev::Hook { hook: 0, cur: state_tag(ctx.current), prev: ctx.previous.map_or("-".into(), state_tag) });
			cmd.wrap(SimWrap { world: w.clone(), hook_env: None });
		})
		.await;
	}
	{
		let w = world.clone();
		job.set_error_handler(move |e| w.log(Ev::ErrHandler { id: 0, msg: e.get().map(ToString::to_string).unwrap_or_default() })).await;
	}
	let task_abort = task.abort_handle();
	let task_mon = {
		let w = world.clone();
		tokio::spawn(async move {
			let res = task.await;
			let cancelled = res.as_ref().err().map_or(false, tokio::task::JoinError::is_cancelled);
			if !cancelled {
				w.log(Ev::TaskEnd { panicked: res.is_err() });
			}
			res.is_err()
		})
	};
	let next_id = Arc::new(AtomicUsize::new(0));
	let sent: Arc<Mutex<BTreeMap<usize, Sent>>> = Arc::new(Mutex::new(BTreeMap::new()));
	let resolved: Arc<Mutex<Vec<usize>>> = Arc::new(Mutex::new(vec![]));
	let mut waiters = vec![];
	let (wtx, mut wrx) = tokio::sync::mpsc::unbounded_channel::<(usize, Ticket)>();
	let mut senders = vec![];
	for (si, ops) in s.senders.iter().enumerate() {
		let job = job.clone();
		let ops = ops.clone();
		let world = world.clone();
		let next_id = next_id.clone();
		let sent = sent.clone();
		let wtx = wtx.clone();
		senders.push(tokio::spawn(async move {
			let mut seq = 0usize;
			for op in ops {
				let marker = |job: &Job, prio: u8, id: usize| {
					let w = world.clone();
					job.verif_send(
						Control::SyncFunc(Box::new(move |ctx| {
							w.log(Ev::Marker { id, cur: state_tag(ctx.current), prev: ctx.previous.map_or("-".into(), state_tag) });
						})),
						prio,
					)
				};
				let g = |ms: u64| Duration::from_millis(ms);
				// the id is allocated and recorded *before* the send: the log may see the marker run at once
				let mut record = |prio: u8, is_marker: bool, name: &'static str| {
					let id = next_id.fetch_add(1, Ordering::SeqCst);
					sent.lock().unwrap().insert(id, Sent { sender: si, seq, prio, is_marker, name });
					seq += 1;
					id
				};
				let (id, ticket) = match op {
					MtOp::Yield => {
						tokio::task::yield_now().await;
						continue;
					}
					MtOp::Sleep(ms) => {
						tokio::time::sleep(g(ms)).await;
						continue;
					}
					MtOp::Start => (record(0, false, "start"), job.start()),
					MtOp::Stop => (record(0, false, "stop"), job.stop()),
					MtOp::Restart => (record(0, false, "restart"), job.restart()),
					MtOp::TryRestart => (record(0, false, "try_restart"), job.try_restart()),
					MtOp::StopSig(ms) => (record(0, false, "stop_with_signal"), job.stop_with_signal(Signal::Terminate, g(ms))),
					MtOp::RestartSig(ms) => (record(0, false, "restart_with_signal"), job.restart_with_signal(Signal::Terminate, g(ms))),
					MtOp::TryRestartSig(ms) => (record(0, false, "try_restart_with_signal"), job.try_restart_with_signal(Signal::Terminate, g(ms))),
					MtOp::Signal => (record(0, false, "signal"), job.signal(Signal::User1)),
					MtOp::ToWait => (record(1, false, "to_wait"), job.to_wait()),
					MtOp::Marker(p) => {
						let id = record(p, true, "marker");
						(id, marker(&job, p, id))
					}
					MtOp::RunAsync(ms) => {
						let id = record(0, true, "run_async");
						let w = world.clone();
						(
							id,
							job.run_async(move |ctx| {
								w.log(Ev::Marker { id, cur: state_tag(ctx.current), prev: ctx.previous.map_or("-".into(), state_tag) });
								Box::new(async move {
									tokio::time::sleep(Duration::from_millis(ms)).await;
								})
							}),
						)
					}
				};
				wtx.send((id, ticket)).ok();
			}
		}));
	}
	drop(wtx);
	// one waiter task per ticket, concurrently
	let collector = {
		let resolved = resolved.clone();
		let world = world.clone();
		tokio::spawn(async move {
			let mut hs = vec![];
			while let Some((id, ticket)) = wrx.recv().await {
				let resolved = resolved.clone();
				let world = world.clone();
				hs.push(tokio::spawn(async move {
					ticket.await;
					world.log(Ev::Done { id, waiter: 0 });
					resolved.lock().unwrap().push(id);
				}));
			}
			hs
		})
	};
	for h in senders {
		h.await.ok();
	}
	waiters.extend(collector.await.unwrap_or_default());
	// let the queues drain (bounded), then end the job
	tokio::time::sleep(Duration::from_millis(25)).await;
	let end_ticket = match s.end {
		0 => Some(job.delete()),
		1 => Some(job.delete_now()),
		_ => None,
	};
	drop(job);
	if let Some(t) = end_ticket {
		tokio::time::timeout(Duration::from_secs(5), t).await.ok();
	}
	let ended = tokio::time::timeout(Duration::from_secs(5), task_mon).await;
	// every waiter was woken when the job ended; how long the runtime takes to run them all is the machine's business
	// (a fixed 20 ms pause here once blamed the job for a loaded machine): wait for each, bounded, and only then give up
	let deadline = tokio::time::Instant::now() + Duration::from_secs(10);
	for w in &mut waiters {
		if tokio::time::timeout_at(deadline, &mut *w).await.is_err() {
			w.abort();
		}
	}
	task_abort.abort();

	// ---- oracles ---------------------------------------------------------------------------------
	let mut v: Vec<(String, String)> = vec![];
	for (sig, what) in world.online.lock().unwrap().iter() {
		v.push((sig.clone(), what.clone()));
	}
	let log = world.take_log();
	let sent = sent.lock().unwrap();
	let resolved: std::collections::BTreeSet<usize> = resolved.lock().unwrap().iter().copied().collect();
	match ended {
		Ok(Ok(true)) => v.push(("C07/end/task-panicked(mt)".into(), "the job task panicked".into())),
		Err(_) => v.push(("C07/end/task-never-ends(mt)".into(), "the job task did not end within 5 s of being deleted / dropped".into())),
		_ => {
			for (id, sx) in sent.iter() {
				if !resolved.contains(id) {
					v.push((format!("C07/end/ticket-outlives-job(mt)/{}", sx.name), format!("ticket #{id} ({}, sender {}, seq {}) did not resolve although the job ended", sx.name, sx.sender, sx.seq)));
				}
			}
		}
	}
	let mut ran: BTreeMap<usize, usize> = BTreeMap::new();
	let mut last: BTreeMap<(usize, u8), (usize, usize)> = BTreeMap::new();
	for r in &log {
		if let Ev::Marker { id, .. } = &r.ev {
			*ran.entry(*id).or_default() += 1;
			if let Some(sx) = sent.get(id) {
				if let Some((pseq, pid)) = last.get(&(sx.sender, sx.prio)) {
					if *pseq > sx.seq {
						v.push((
							format!("C10/order/fifo-violated(mt)/prio{}", sx.prio),
							format!("sender {} sent #{id} (seq {}) before #{pid} (seq {pseq}) at the same priority, but it ran after it", sx.sender, sx.seq),
						));
					}
				}
				last.insert((sx.sender, sx.prio), (sx.seq, *id));
			}
		}
	}
	for (id, n) in &ran {
		if *n > 1 {
			v.push(("C10/order/marker-ran-twice(mt)".into(), format!("marker #{id} ran {n} times")));
		}
	}
	let mut f = Fnv::default();
	for r in &log {
		f.str(match &r.ev {
			Ev::Spawn { .. } => "S",
			Ev::Reaped { .. } => "R",
			Ev::StartKill { .. } => "K",
			Ev::Signal { .. } => "g",
			Ev::Marker { .. } => "m",
			Ev::SpawnFail { .. } => "F",
			Ev::ErrHandler { .. } => "E",
			Ev::TaskEnd { .. } => "T",
			_ => "",
		});
	}
	MtOutcome {
		violations: v,
		log_len: log.len(),
		spawns: log.iter().filter(|r| matches!(r.ev, Ev::Spawn { .. })).count(),
		markers: ran.len(),
		tickets: sent.len(),
		hash: f.finish(),
		log_sample: log.iter().take(40).map(|r| format!("{:.3}ms {:?}", r.t.as_secs_f64() * 1000.0, r.ev)).collect(),
	}
}

pub fn run_one(prop: &str, rng: &mut Rng, rep: &mut Report, sample: bool) {
	let scn = gen(rng);
	let out = run(&scn);
	rep.eval();
	rep.count("mt_scenarios", 1);
	rep.count("mt_job_events", out.log_len as u64);
	rep.count("mt_spawns", out.spawns as u64);
	rep.count("mt_markers_run", out.markers as u64);
	rep.count("mt_tickets", out.tickets as u64);
	if out.spawns >= 1 {
		rep.nontrivial(out.hash);
	}
	for (sig, what) in out.violations {
		if sig.starts_with(&format!("{prop}/")) {
			rep.violation(&sig, &what, json!({"scenario": scn_json(&scn), "log": out.log_sample}));
		} else {
			rep.count(&format!("out_of_scope::{sig}"), 1);
		}
	}
	if sample {
		rep.sample(json!({"mt_scenario": scn_json(&scn), "log": out.log_sample.iter().take(15).collect::<Vec<_>>()}));
	}
}
