//! Scenario description for the virtual-time supervisor engine (serialisable for replay).

use std::time::Duration;

use vcommon::{json, Fnv, Value};

use crate::sim::{Behaviour, Faults};

#[derive(Clone, Debug, PartialEq, Eq)]
pub enum Op {
	Start,
	Stop,
	Restart,
	TryRestart,
	StopSig { sig: i32, grace_ms: u64 },
	RestartSig { sig: i32, grace_ms: u64 },
	TryRestartSig { sig: i32, grace_ms: u64 },
	Signal(i32),
	ToWait,
	/// `Control::NextEnding` sent through the public `Job::control`, which queues everything at normal priority
	RawNextEnding,
	Delete,
	DeleteNow,
	/// `run` marker (normal priority)
	Run,
	/// `run_async` marker whose future sleeps (virtual) before returning
	RunAsync { hold_ms: u64 },
	/// `run_async` blocked on the harness gate until a `Release` step
	Gate,
	SetHook(u32),
	SetErrH(u32),
	UnsetErrH,
	/// hook H2: a `run` marker sent with an explicit priority (0 normal, 1 high, 2 urgent)
	MarkerPrio(u8),
	/// the public but "internal detail" control `ContinueTryGracefulRestart` sent directly (C04 only: judged by the
	/// invariant monitor, the reference model does not describe it)
	Continue,
	/// an async spawn hook that suspends for `delay_ms` (virtual) before the spawn: starting takes time, which makes
	/// "the ticket resolved before its control had run" observable. Scenarios with it are judged by invariants only.
	SetAsyncHook(u64),
	/// `unset_spawn_hook`; generated only right before a `SetHook` at the very start of a scenario (a spawn without the
	/// harness' hook would escape the simulated child)
	UnsetHook,
}

impl Op {
	pub fn name(&self) -> &'static str {
		match self {
			Op::Start => "start",
			Op::Stop => "stop",
			Op::Restart => "restart",
			Op::TryRestart => "try_restart",
			Op::StopSig { .. } => "stop_with_signal",
			Op::RestartSig { .. } => "restart_with_signal",
			Op::TryRestartSig { .. } => "try_restart_with_signal",
			Op::Signal(_) => "signal",
			Op::ToWait => "to_wait",
			Op::RawNextEnding => "control_next_ending",
			Op::Delete => "delete",
			Op::DeleteNow => "delete_now",
			Op::Run => "run",
			Op::RunAsync { .. } => "run_async",
			Op::Gate => "gate",
			Op::SetHook(_) => "set_spawn_hook",
			Op::SetErrH(_) => "set_error_handler",
			Op::UnsetErrH => "unset_error_handler",
			Op::MarkerPrio(0) => "marker_normal",
			Op::MarkerPrio(1) => "marker_high",
			Op::MarkerPrio(_) => "marker_urgent",
			Op::Continue => "continue_try_graceful_restart",
			Op::SetAsyncHook(_) => "set_spawn_async_hook",
			Op::UnsetHook => "unset_spawn_hook",
		}
	}

	/// Priority class of the queue the control travels in.
	pub fn priority(&self) -> u8 {
		match self {
			Op::ToWait => 1,
			Op::DeleteNow => 2,
			Op::MarkerPrio(p) => *p,
			_ => 0,
		}
	}

	pub fn to_json(&self) -> Value {
		match self {
			Op::StopSig { sig, grace_ms } => json!({"op": "stop_with_signal", "sig": sig, "grace_ms": grace_ms}),
			Op::RestartSig { sig, grace_ms } => json!({"op": "restart_with_signal", "sig": sig, "grace_ms": grace_ms}),
			Op::TryRestartSig { sig, grace_ms } => json!({"op": "try_restart_with_signal", "sig": sig, "grace_ms": grace_ms}),
			Op::Signal(s) => json!({"op": "signal", "sig": s}),
			Op::RunAsync { hold_ms } => json!({"op": "run_async", "hold_ms": hold_ms}),
			Op::SetHook(i) => json!({"op": "set_spawn_hook", "id": i}),
			Op::SetErrH(i) => json!({"op": "set_error_handler", "id": i}),
			Op::MarkerPrio(p) => json!({"op": "marker", "prio": p}),
			Op::SetAsyncHook(d) => json!({"op": "set_spawn_async_hook", "delay_ms": d}),
			other => json!({"op": other.name()}),
		}
	}

	pub fn from_json(v: &Value) -> Option<Self> {
		let sig = v["sig"].as_i64().unwrap_or(15) as i32;
		let grace_ms = v["grace_ms"].as_u64().unwrap_or(0);
		Some(match v["op"].as_str()? {
			"start" => Op::Start,
			"stop" => Op::Stop,
			"restart" => Op::Restart,
			"try_restart" => Op::TryRestart,
			"stop_with_signal" => Op::StopSig { sig, grace_ms },
			"restart_with_signal" => Op::RestartSig { sig, grace_ms },
			"try_restart_with_signal" => Op::TryRestartSig { sig, grace_ms },
			"signal" => Op::Signal(sig),
			"to_wait" => Op::ToWait,
			"control_next_ending" => Op::RawNextEnding,
			"delete" => Op::Delete,
			"delete_now" => Op::DeleteNow,
			"run" => Op::Run,
			"run_async" => Op::RunAsync { hold_ms: v["hold_ms"].as_u64().unwrap_or(0) },
			"gate" => Op::Gate,
			"set_spawn_hook" => Op::SetHook(v["id"].as_u64().unwrap_or(0) as u32),
			"set_error_handler" => Op::SetErrH(v["id"].as_u64().unwrap_or(0) as u32),
			"unset_error_handler" => Op::UnsetErrH,
			"marker" => Op::MarkerPrio(v["prio"].as_u64().unwrap_or(0) as u8),
			"continue_try_graceful_restart" => Op::Continue,
			"set_spawn_async_hook" => Op::SetAsyncHook(v["delay_ms"].as_u64().unwrap_or(3)),
			"unset_spawn_hook" => Op::UnsetHook,
			_ => return None,
		})
	}
}

#[derive(Clone, Debug, PartialEq, Eq)]
pub enum Step {
	/// send a burst of controls without yielding in between
	Burst(Vec<Op>),
	/// driver sleeps in virtual time
	Sleep(u64),
	/// await the ticket of the most recently sent control (virtual timeout: never-resolving => recorded)
	AwaitLast,
	/// release every blocked gate
	Release,
	/// drop every `Job` handle the driver holds (tickets stay alive)
	DropJob,
}

impl Step {
	pub fn to_json(&self) -> Value {
		match self {
			Step::Burst(ops) => json!({"burst": ops.iter().map(Op::to_json).collect::<Vec<_>>()}),
			Step::Sleep(ms) => json!({"sleep_ms": ms}),
			Step::AwaitLast => json!("await_last"),
			Step::Release => json!("release"),
			Step::DropJob => json!("drop_job"),
		}
	}
	pub fn from_json(v: &Value) -> Option<Self> {
		if let Some(b) = v.get("burst") {
			return Some(Step::Burst(b.as_array()?.iter().filter_map(Op::from_json).collect()));
		}
		if let Some(ms) = v.get("sleep_ms") {
			return Some(Step::Sleep(ms.as_u64()?));
		}
		match v.as_str()? {
			"await_last" => Some(Step::AwaitLast),
			"release" => Some(Step::Release),
			"drop_job" => Some(Step::DropJob),
			_ => None,
		}
	}
}

/// How tickets are awaited.
#[derive(Clone, Copy, Debug, PartialEq, Eq)]
pub enum Waiters {
	/// one waiter task per ticket, all of them concurrently (many tasks waiting on one job)
	TaskPerTicket,
	/// k tasks on clones of every ticket
	Clones(usize),
	/// a single task awaits the tickets one after the other, in send order (at most one task waiting per job)
	Single,
	/// waiter tasks are created only at the end of the steps
	Late,
	/// a waiter polls its ticket once while it is pending, then clones it and hands the clone to a second task
	PollThenClone,
}

impl Waiters {
	pub fn name(&self) -> String {
		match self {
			Waiters::TaskPerTicket => "task-per-ticket".into(),
			Waiters::Clones(k) => format!("clones-{k}"),
			Waiters::Single => "single".into(),
			Waiters::Late => "late".into(),
			Waiters::PollThenClone => "poll-then-clone".into(),
		}
	}
	pub fn from_name(s: &str) -> Self {
		match s {
			"single" => Waiters::Single,
			"late" => Waiters::Late,
			"poll-then-clone" => Waiters::PollThenClone,
			s if s.starts_with("clones-") => Waiters::Clones(s[7..].parse().unwrap_or(2)),
			_ => Waiters::TaskPerTicket,
		}
	}
}

/// How the job is ended after the tail.
#[derive(Clone, Copy, Debug, PartialEq, Eq)]
pub enum Ending {
	None,
	Delete,
	DeleteNow,
	Drop,
}

impl Ending {
	pub fn name(&self) -> &'static str {
		match self {
			Ending::None => "none",
			Ending::Delete => "delete",
			Ending::DeleteNow => "delete_now",
			Ending::Drop => "drop",
		}
	}
	pub fn from_name(s: &str) -> Self {
		match s {
			"delete" => Ending::Delete,
			"delete_now" => Ending::DeleteNow,
			"drop" => Ending::Drop,
			_ => Ending::None,
		}
	}
}

#[derive(Clone, Debug)]
pub struct Scenario {
	pub behaviours: Vec<Behaviour>,
	pub faults: Faults,
	pub steps: Vec<Step>,
	pub waiters: Waiters,
	pub tail_ms: u64,
	pub ending: Ending,
	pub rng_seed: u64,
}

impl Scenario {
	pub fn to_json(&self) -> Value {
		json!({
			"behaviours": self.behaviours.iter().map(Behaviour::to_json).collect::<Vec<_>>(),
			"faults": self.faults.to_json(),
			"steps": self.steps.iter().map(Step::to_json).collect::<Vec<_>>(),
			"waiters": self.waiters.name(),
			"tail_ms": self.tail_ms,
			"ending": self.ending.name(),
			"rng_seed": self.rng_seed,
		})
	}

	pub fn from_json(v: &Value) -> Option<Self> {
		Some(Self {
			behaviours: v["behaviours"].as_array()?.iter().map(Behaviour::from_json).collect(),
			faults: Faults::from_json(&v["faults"]),
			steps: v["steps"].as_array()?.iter().filter_map(Step::from_json).collect(),
			waiters: Waiters::from_name(v["waiters"].as_str().unwrap_or("")),
			tail_ms: v["tail_ms"].as_u64().unwrap_or(1000),
			ending: Ending::from_name(v["ending"].as_str().unwrap_or("")),
			rng_seed: v["rng_seed"].as_u64().unwrap_or(0),
		})
	}

	pub fn ops(&self) -> Vec<&Op> {
		self.steps
			.iter()
			.flat_map(|s| match s {
				Step::Burst(ops) => ops.iter().collect::<Vec<_>>(),
				_ => vec![],
			})
			.collect()
	}

	/// Longest timer in the scenario (for the "10^4 x the longest timer" bounded-progress waits).
	pub fn longest_ms(&self) -> u64 {
		let mut m = 10;
		for op in self.ops() {
			match op {
				Op::StopSig { grace_ms, .. } | Op::RestartSig { grace_ms, .. } | Op::TryRestartSig { grace_ms, .. } => m = m.max(*grace_ms),
				Op::RunAsync { hold_ms } => m = m.max(*hold_ms),
				_ => {}
			}
		}
		for s in &self.steps {
			if let Step::Sleep(ms) = s {
				m = m.max(*ms);
			}
		}
		for b in &self.behaviours {
			m = m.max(b.self_exit.map_or(0, |d| d.as_millis() as u64));
			m = m.max(b.on_signal.map_or(0, |d| d.as_millis() as u64));
		}
		m.max(self.tail_ms)
	}

	/// Hash of the scenario with the seed erased (distinctness of explored cases).
	pub fn shape_hash(&self) -> u64 {
		let mut v = self.to_json();
		v["rng_seed"] = json!(0);
		Fnv::default().str(&v.to_string()).finish()
	}
}

pub fn ms(n: u64) -> Duration {
	Duration::from_millis(n)
}
