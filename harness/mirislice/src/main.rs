//! The slice of the pure engine that reaches `unsafe` code (the `NonZero*::new_unchecked` sites of the
//! JSON decoder) and the signal / exit-status conversions, small enough to run under Miri:
//!   cargo +nightly miri run -p mirislice -- C16 --seed N --out FILE
//! Miri is the oracle for undefined behaviour; the functional oracles of C16 run as well.

#[path = "../../pure/src/c16.rs"]
mod c16;

use std::{os::unix::process::ExitStatusExt, process::ExitStatus, str::FromStr};

use vcommon::{json, Report, ShardArgs};
use watchexec_events::ProcessEnd;
use watchexec_signals::Signal;

fn main() {
	let mut args = ShardArgs::parse();
	let mut rep = Report::new();
	// the interpreter is ~4 orders of magnitude slower: a small generated part, the exhaustive decoder part in full
	args.tier = "miri".into();
	match args.prop.as_str() {
		"C16" => c16::run(&args, &mut rep),
		"C19" => {
			for n in 1..=64i32 {
				rep.eval();
				rep.nontrivial(n as u64);
				let s = Signal::from(n);
				let shown = s.to_string();
				if let (Some(a), Ok(b)) = (s.to_nix(), Signal::from_str(&shown)) {
					if b.to_nix() != Some(a) {
						rep.violation("C19/display-roundtrip", &format!("{s:?} -> {shown} -> {b:?}"), json!({"n": n}));
					}
				}
				for raw in [n, n | 0x80, (n & 0xff) << 8] {
					let pe = ProcessEnd::from(ExitStatus::from_raw(raw));
					if raw == 0 && pe != ProcessEnd::Success {
						rep.violation("C19/exit-code", "0 is not success", json!({"raw": raw}));
					}
				}
			}
		}
		_ => std::process::exit(2),
	}
	rep.count("ran_under_miri", u64::from(cfg!(miri)));
	rep.write(&args);
}
