#!/usr/bin/env python3
"""Which lines of a property's anchor files did its check's workload actually reach?

Development aid, not a check: runs `./check <ID> <tier>` with VERIF_COVERAGE=1 (coverage-instrumented build of the
engines and of the production binary in target/cov, verdicts and evidence of that run discarded), merges the LLVM
profiles of every process the workload started and prints, per anchor file of the property, the line coverage and the
uncovered line ranges. A monitor says nothing about code the workload never drives, so an uncovered range inside a
property's mechanism is a gap to close with a new scenario (or to explain).

usage: lib/coverage.py run <ID>... [--tier quick]     run + report
       lib/coverage.py report <ID>...                 report from the profiles of the last run
       lib/coverage.py summary                        one line per property (written to coverage/summary.json as well)
"""
import json, os, subprocess, sys, glob, re

VERIF = os.path.dirname(os.path.dirname(os.path.abspath(__file__)))
COV = os.path.join(VERIF, "target", "cov")
TOOLS = os.path.expanduser("~/.rustup/toolchains/nightly-x86_64-unknown-linux-gnu/lib/rustlib/x86_64-unknown-linux-gnu/bin")
ENGINE_BINS = ["pure", "simjob", "wxlib", "vchild"]


def anchors(pid):
    for l in open(os.path.join(VERIF, "properties.jsonl")):
        r = json.loads(l)
        if r["id"] == pid:
            return r["anchors"]["files"]
    raise SystemExit("unknown property " + pid)


def run(pid, tier):
    prof = os.path.join(COV, "prof", pid)
    subprocess.run(["rm", "-rf", prof])
    env = dict(os.environ, VERIF_COVERAGE="1")
    r = subprocess.run([os.path.join(VERIF, "check"), pid, tier], env=env, cwd=VERIF, text=True, capture_output=True)
    print("[%s] coverage run exit=%d (verdicts of an instrumented run are not results)" % (pid, r.returncode), file=sys.stderr)
    return r.returncode


def export(pid):
    prof = os.path.join(COV, "prof", pid)
    raws = glob.glob(os.path.join(prof, "*.profraw"))
    if not raws:
        return None
    data = os.path.join(prof, "merged.profdata")
    r = subprocess.run([os.path.join(TOOLS, "llvm-profdata"), "merge", "-sparse", "--failure-mode=all", "-o", data] + raws,
                       capture_output=True, text=True)
    if r.returncode != 0 and not os.path.exists(data):
        print(r.stderr[-2000:], file=sys.stderr)
        return None
    objs = [os.path.join(COV, "debug", b) for b in ENGINE_BINS] + [os.path.join(COV, "repo-bin", "debug", "watchexec")]
    objs = [o for o in objs if os.path.exists(o)]
    files = [os.path.join("/repo", f) for f in anchors(pid)]
    cmd = [os.path.join(TOOLS, "llvm-cov"), "export", "--format=lcov", "--instr-profile", data, objs[0]]
    for o in objs[1:]:
        cmd += ["--object", o]
    cmd += files
    r = subprocess.run(cmd, capture_output=True, text=True)
    if r.returncode != 0:
        print(r.stderr[-2000:], file=sys.stderr)
        return None
    out = {}
    cur = None
    for line in r.stdout.splitlines():
        if line.startswith("SF:"):
            cur = out.setdefault(line[3:], {})
        elif line.startswith("DA:") and cur is not None:
            ln, cnt = line[3:].split(",")[:2]
            cur[int(ln)] = max(cur.get(int(ln), 0), int(cnt))
    return out


def ranges(nums):
    nums = sorted(nums)
    res, start, prev = [], None, None
    for n in nums:
        if start is None:
            start = prev = n
        elif n <= prev + 1:
            prev = n
        else:
            res.append((start, prev))
            start = prev = n
    if start is not None:
        res.append((start, prev))
    return res


def is_test_region(path, ln, cache={}):
    """lines inside `#[cfg(test)]` modules do not belong to the code under test"""
    if path not in cache:
        marks = []
        try:
            src = open(path).read().splitlines()
        except OSError:
            src = []
        for i, l in enumerate(src, 1):
            if re.match(r"\s*#\[cfg\(test\)\]", l):
                marks.append(i)
        cache[path] = marks
    return any(ln >= m for m in cache[path][-1:]) if cache[path] else False


def report(pid, verbose=True):
    cov = export(pid)
    if cov is None:
        print("%s: no profiles" % pid)
        return None
    rows = {}
    for path in sorted(cov):
        lines = {ln: c for ln, c in cov[path].items() if not is_test_region(path, ln)}
        if not lines:
            continue
        hit = sum(1 for c in lines.values() if c > 0)
        miss = [ln for ln, c in lines.items() if c == 0]
        rows[path.replace("/repo/", "")] = {"lines": len(lines), "covered": hit, "uncovered_ranges": ranges(miss)}
        if verbose:
            print("%s  %-45s %4d/%4d  %5.1f%%  uncovered: %s" % (pid, path.replace("/repo/crates/", ""), hit, len(lines),
                  100.0 * hit / len(lines), " ".join("%d-%d" % r if r[0] != r[1] else str(r[0]) for r in ranges(miss))))
    return rows


def main():
    a = sys.argv[1:]
    if not a:
        print(__doc__)
        return 0
    tier = "quick"
    if "--tier" in a:
        tier = a[a.index("--tier") + 1]
        a = [x for x in a if x not in ("--tier", tier)]
    if a[0] == "run":
        for pid in a[1:]:
            run(pid, tier)
            report(pid)
    elif a[0] == "report":
        for pid in a[1:]:
            report(pid)
    elif a[0] == "summary":
        allr = {}
        for pid in sorted(os.listdir(os.path.join(COV, "prof"))):
            rows = report(pid, verbose=False)
            if rows:
                allr[pid] = rows
                t = sum(r["lines"] for r in rows.values())
                c = sum(r["covered"] for r in rows.values())
                print("%s  anchor files %2d  lines %5d  covered %5d  %5.1f%%" % (pid, len(rows), t, c, 100.0 * c / max(1, t)))
        os.makedirs(os.path.join(VERIF, "coverage"), exist_ok=True)
        json.dump(allr, open(os.path.join(VERIF, "coverage", "summary.json"), "w"), indent=1)
    return 0


if __name__ == "__main__":
    sys.exit(main())
