#!/usr/bin/env python3
"""Hand-craft a simjob replay file: mkscn.py NAME STEPS_JSON BEHAVIOURS_JSON WAITERS ENDING [FAULTS_JSON]"""
import json, sys
name, steps, beh, waiters, ending = sys.argv[1], json.loads(sys.argv[2]), json.loads(sys.argv[3]), sys.argv[4], sys.argv[5]
faults = json.loads(sys.argv[6]) if len(sys.argv) > 6 else {}
json.dump({"witness": {"scenario": {"behaviours": beh, "faults": faults, "steps": steps, "waiters": waiters, "tail_ms": 300, "ending": ending, "rng_seed": 3}}}, open(name + '.json', 'w'))
