#!/usr/bin/env python3
"""Regenerate /verif/MANIFEST.json from lib/props.py (single source of truth)."""
import json
import os
import subprocess
import sys

sys.dont_write_bytecode = True
HERE = os.path.dirname(os.path.abspath(__file__))
VERIF = os.path.dirname(HERE)
sys.path.insert(0, HERE)
from props import PROPS, NOT_APPLICABLE, ENGINES  # noqa: E402

ALL = ["C%02d" % i for i in range(1, 21)]


def hook_commits():
    out = subprocess.run(["git", "-C", "/repo", "log", "--format=%h %s"], capture_output=True, text=True).stdout
    return [l.split()[0] for l in out.splitlines() if l.split(" ", 1)[1].startswith("verif hook")]


checks = []
for pid in ALL:
    if pid not in PROPS:
        continue
    c = PROPS[pid]
    checks.append({
        "property_id": pid,
        "quick_cmd": "./check %s quick" % pid,
        "thorough_cmd": "./check %s thorough" % pid,
        "evidence_file": "/verif/evidence/%s.json" % pid,
        "replay_cmd_template": "./check %s --replay {path}" % pid,
        "engine": c["engine"],
        "level_claimed": {"category": c["level"], "text": c["level_text"], "design_ref": c.get("design_ref", "DESIGN.md section 4, " + pid)},
        "level_note": c["level_note"],
        "technique": c["technique"],
    })
na = [{"property_id": p, "reason": NOT_APPLICABLE.get(p, "check not built yet (work in progress in this session); no claim is made")} for p in ALL if p not in PROPS]
manifest = {
    "version": 1,
    "setup_cmd": "./check --setup",
    "hooks": {
        "guard": "--cfg watchexec_verif",
        "enable": "harness/.cargo/config.toml sets rustflags = [\"--cfg\", \"watchexec_verif\"] for every build of the harness workspace, whose path dependencies are /repo/crates/*; the CLI binary used by the end-to-end engine is built separately with the guard off",
        "baseline_off_cmd": "cd /repo && (cargo nextest run --workspace --no-fail-fast --test-threads 8 --offline || cargo test --workspace --no-fail-fast --offline)",
        "source_commits": hook_commits(),
        "add_only": True,
    },
    "engines": ENGINES,
    "checks": checks,
    "not_applicable": na,
    "notes": "Technique family: runtime monitoring and sanitizers. Every check drives the real watchexec code and decides with an oracle over what was observed; see DESIGN.md. Known findings: known_findings.json.",
}
with open(os.path.join(VERIF, "MANIFEST.json"), "w") as f:
    json.dump(manifest, f, indent=1)
    f.write("\n")
print("wrote MANIFEST.json: %d checks, %d not claimed" % (len(checks), len(na)))
