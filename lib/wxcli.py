#!/usr/bin/env python3
"""E4: end-to-end engine on the production `watchexec` binary (hooks OFF) with `vchild` as the command.

usage: wxcli.py <PROP> --tier T --seed N --shard i/n --out FILE --budget S --scratch DIR
Properties: C05 (on-busy policy), C08 (CLI part: SIGINT/SIGTERM shutdown), C18 (CLI part: argv / shell / wrap).
Writes the same shard report JSON as the Rust engines.
"""
import json
import os
import random
import signal
import subprocess
import sys
import threading
import time
import hashlib

WATCHEXEC = os.environ.get("WATCHEXEC_BIN", "/verif/target/repo-bin/debug/watchexec")
VCHILD = os.environ.get("VCHILD", "/verif/target/debug/vchild")
# memcheck overlay: the binary under test runs inside valgrind (set by --valgrind 1); every wall-clock wait is stretched and
# only timing-free rules are judged
VG = False
VG_SLOW = 1
FORCE = None


def mono():
    return time.monotonic_ns()


class LoadMonitor(threading.Thread):
    """Heartbeat: sleeps 5 ms at a time and remembers scheduling gaps; a timing rule is only a verdict on a healthy machine."""

    def __init__(self):
        super().__init__(daemon=True)
        self.gaps = []  # (t_end_ns, gap_ns) for gaps > 50 ms
        self.lock = threading.Lock()

    def run(self):
        last = mono()
        while True:
            time.sleep(0.005)
            now = mono()
            if now - last > 50e6:
                with self.lock:
                    self.gaps.append((now, now - last))
                    del self.gaps[:-500]
            last = now

    def max_gap_ms(self, since_ns):
        with self.lock:
            return max([g for t, g in self.gaps if t >= since_ns] + [0]) / 1e6


LOAD = LoadMonitor()


class Report:
    def __init__(self):
        self.evaluations = 0
        self.nontrivial = set()
        self.violations = []
        self.inconclusive = {}
        self.counters = {}
        self.samples = []
        self.notes = set()
        self.lock = threading.Lock()

    def count(self, k, n=1):
        with self.lock:
            self.counters[k] = self.counters.get(k, 0) + n

    def vio(self, sig, what, witness):
        with self.lock:
            self.counters["violations_total"] = self.counters.get("violations_total", 0) + 1
            if len([v for v in self.violations if v["sig"] == sig]) < 3 and len(self.violations) < 40:
                self.violations.append({"sig": sig, "what": what, "witness": witness})

    def inc(self, reason):
        with self.lock:
            self.inconclusive[reason] = self.inconclusive.get(reason, 0) + 1

    def dump(self, path):
        d = {"evaluations": self.evaluations, "nontrivial": sorted(self.nontrivial), "violations": self.violations,
             "inconclusive": self.inconclusive, "counters": self.counters, "samples": self.samples[:4],
             "notes": sorted(self.notes), "exhaustive": None}
        tmp = path + ".tmp"
        with open(tmp, "w") as f:
            json.dump(d, f)
        os.replace(tmp, path)


def parse_args():
    a = sys.argv[1:]
    o = {"prop": a[0], "tier": "quick", "seed": 0, "shard": 0, "nshards": 1, "out": "/dev/stdout", "budget": 30.0, "scratch": "/tmp"}
    i = 1
    while i < len(a):
        k, v = a[i], a[i + 1] if i + 1 < len(a) else ""
        if k == "--tier":
            o["tier"] = v
        elif k == "--seed":
            o["seed"] = int(v)
        elif k == "--shard":
            o["shard"], o["nshards"] = [int(x) for x in v.split("/")]
        elif k == "--out":
            o["out"] = v
        elif k == "--budget":
            o["budget"] = float(v)
        elif k == "--scratch":
            o["scratch"] = v
        elif k == "--replay":
            o["replay"] = v
        elif k == "--valgrind":
            o["valgrind"] = v not in ("0", "")
        i += 2
    return o


# ------------------------------------------------------------------------------------------------
# helpers

def read_log(path):
    out = []
    try:
        with open(path) as f:
            for l in f:
                p = l.rstrip("\n").split(" ", 6)
                if len(p) < 7:
                    continue
                out.append({"t": int(p[0]), "pid": int(p[1]), "ppid": int(p[2]), "pgid": int(p[3]), "sid": int(p[4]), "tag": p[5], "ev": p[6]})
    except OSError:
        pass
    return out


def proc_alive(pid, needle=b"vchild"):
    try:
        with open("/proc/%d/stat" % pid) as f:
            s = f.read()
        st = s[s.rfind(")") + 2]
        if st in "ZX":
            return False
        with open("/proc/%d/cmdline" % pid, "rb") as f:
            return needle in f.read()
    except OSError:
        return False


def inotify_ready(pid, deadline_s=8.0):
    """The production binary has registered an inotify watch (fdinfo shows an `inotify wd:` line)."""
    t0 = time.time()
    while time.time() - t0 < deadline_s:
        try:
            for fd in os.listdir("/proc/%d/fdinfo" % pid):
                try:
                    with open("/proc/%d/fdinfo/%s" % (pid, fd)) as f:
                        if "inotify wd:" in f.read():
                            return True
                except OSError:
                    pass
        except OSError:
            return False
        time.sleep(0.005)
    return False


class Wx:
    """One watchexec process under test."""

    def __init__(self, scratch, name, flags, child_opts, extra_env=None, cmd_override=None, stdin_pipe=False):
        self.dir = os.path.join(scratch, name)
        self.proj = os.path.join(self.dir, "proj")
        os.makedirs(self.proj, exist_ok=True)
        self.log = os.path.join(self.dir, "child.log")
        open(self.log, "w").close()
        self.err = open(os.path.join(self.dir, "wx.err"), "wb")
        cmd = [WATCHEXEC, "-w", self.proj, "--project-origin", self.proj] + flags
        if VG:
            cmd = ["valgrind", "-q", "--error-exitcode=97", "--trace-children=no", "--log-file=" + os.path.join(self.dir, "vg.%p.log")] + cmd
        if cmd_override is None:
            cmd += ["-n", "--", VCHILD, self.log, "c"] + child_opts
        else:
            cmd += cmd_override
        env = dict(os.environ)
        env["HOME"] = self.dir
        env["XDG_CONFIG_HOME"] = os.path.join(self.dir, "xdg")
        env.pop("RUST_LOG", None)
        env.pop("WATCHEXEC_IGNORE_FILES", None)
        env["GIT_CONFIG_NOSYSTEM"] = "1"
        if extra_env:
            env.update(extra_env)
        self.cmd = cmd
        self.p = subprocess.Popen(cmd, cwd=self.proj, stdin=subprocess.PIPE if stdin_pipe else subprocess.DEVNULL, stdout=subprocess.DEVNULL, stderr=self.err, env=env, start_new_session=True)
        self.changes = []  # (t_before, t_after, n_files)
        self.seq = 0
        self.noise_sig = None  # a signal watchexec is told to discard, sent next to every change (same debounce window)
        self.noise_sent = 0

    def lines(self):
        return read_log(self.log)

    def starts(self):
        return [l for l in self.lines() if l["ev"] == "start" and l["tag"] == "c"]

    def wait_starts(self, n, timeout):
        t0 = time.time()
        while time.time() - t0 < timeout:
            if len(self.starts()) >= n:
                return True
            time.sleep(0.004)
        return False

    def change(self, nfiles=1):
        tb = mono()
        if self.noise_sig and self.p.poll() is None:
            # lands in the same batch as the change: the batch then holds a signal event and path events
            try:
                os.kill(self.p.pid, self.noise_sig)
                self.noise_sent += 1
            except OSError:
                pass
        for _ in range(nfiles):
            self.seq += 1
            with open(os.path.join(self.proj, "f%d.txt" % (self.seq % 5)), "w") as f:
                f.write(str(self.seq))
        ta = mono()
        self.changes.append((tb, ta, nfiles))
        return tb, ta

    def shutdown(self, sig=signal.SIGTERM, timeout=6.0):
        t0 = mono()
        try:
            if sig == "stdin-eof":
                self.p.stdin.close()  # --stdin-quit: end of input asks for the same shutdown as an interrupt
            else:
                self.p.send_signal(sig)
        except (ProcessLookupError, OSError):
            pass
        try:
            self.p.wait(timeout=timeout)
            took = (mono() - t0) / 1e9
        except subprocess.TimeoutExpired:
            took = None
        return t0, took

    def cleanup(self):
        if self.p.poll() is None:
            try:
                os.killpg(self.p.pid, signal.SIGKILL)
            except OSError:
                pass
            self.p.wait()
        for l in self.lines():
            if l["ev"] == "start" and proc_alive(l["pid"]):
                try:
                    os.kill(l["pid"], signal.SIGKILL)
                except OSError:
                    pass
        self.err.close()

    def witness(self, extra=None):
        t0 = self.changes[0][0] if self.changes else 0
        base = min([t0] + [l["t"] for l in self.lines()[:1]]) if (self.changes or self.lines()) else 0
        w = {"cmd": [c if len(c) < 200 else c[:200] + "..." for c in self.cmd[1:]],
             "changes_ms": [[round((a - base) / 1e6, 1), round((b - base) / 1e6, 1), n] for a, b, n in self.changes],
             "child_log": ["%.1f pid=%d %s %s" % ((l["t"] - base) / 1e6, l["pid"], l["tag"], l["ev"]) for l in self.lines()[:60]]}
        if extra:
            w.update(extra)
        try:
            with open(os.path.join(self.dir, "wx.err"), "rb") as f:
                w["stderr_tail"] = f.read().decode("utf8", "replace").splitlines()[-6:]
        except OSError:
            pass
        return w


def runs_of(lines):
    """Per pid of tag 'c': start time, signals, own exit time."""
    runs = {}
    order = []
    for l in lines:
        if l["tag"] != "c":
            continue
        r = runs.get(l["pid"])
        if l["ev"] == "start":
            runs[l["pid"]] = {"pid": l["pid"], "start": l["t"], "signals": [], "exit": None, "overlap": None}
            order.append(l["pid"])
        elif r is not None:
            if l["ev"].startswith("signal "):
                r["signals"].append((l["t"], int(l["ev"].split()[1])))
            elif l["ev"].startswith("exit"):
                r["exit"] = l["t"]
    for l in lines:
        if l["tag"] == "c" and l["ev"].startswith("overlap") and l["pid"] in runs:
            runs[l["pid"]]["overlap"] = l["ev"]
    return [runs[p] for p in order]


# ------------------------------------------------------------------------------------------------
# C05 scenarios

MODES = {
    "do-nothing": ["--on-busy-update=do-nothing"],
    "queue": ["--on-busy-update=queue"],
    "restart": ["--on-busy-update=restart"],
    "restart(-r)": ["-r"],
    "signal": ["--on-busy-update=signal"],
    "signal(--signal)": ["--signal", "SIGUSR1"],
}


def c05_scenario(rep, rng, scratch, idx, force=None):
    """`force` (replay): the recorded scenario description; its mode, template and option values replace the random choices."""
    force = force or {}
    mode_name = force.get("mode") or rng.choice(list(MODES))
    mode = mode_name.split("(")[0]
    template = force.get("template") or rng.choice(["idle", "midrun", "midrun", "at-exit", "grace", "back-to-back", "postpone", "delay-run", "three-step",
                                                    "exit-in-delay", "exit-in-delay"])
    if template == "exit-in-delay" and mode not in ("queue", "restart"):
        template = "midrun"
    if template == "grace" and mode != "restart":
        template = "midrun"
    if template == "three-step" and mode not in ("queue", "restart"):
        template = "midrun"
    # 1000 is spelt without a unit ("--stop-timeout 1": seconds, the deprecated but documented form)
    stop_timeout = rng.choice([300, 500, 300, 500, 0, 1000]) if mode == "restart" else rng.choice([300, 500])
    debounce = rng.choice([20, 40])
    if "stop_timeout_ms" in force:
        stop_timeout, debounce = force["stop_timeout_ms"], force.get("debounce_ms", debounce)
    flags = list(MODES[mode_name]) + ["--debounce", "%dms" % debounce, "--stop-timeout", "1" if stop_timeout == 1000 else "%dms" % stop_timeout]
    stop_sig = None
    if rng.random() < 0.4 and mode in ("restart", "signal") and "--signal" not in flags:
        stop_sig = rng.choice([("SIGUSR2", 12), ("SIGINT", 2), ("SIGHUP", 1)])
        flags += ["--stop-signal", stop_sig[0]]
    mapped = None
    if rng.random() < 0.2:
        # one of the two quit signals is mapped to something harmless: the other one must still quit watchexec
        mapped = rng.choice(["TERM", "INT"])
        flags += ["--map-signal", "%s:USR2" % mapped]
    # a signal that watchexec is told to discard arrives together with every change (one scenario in four): the batch
    # is then a mix of a signal event and path events, and must be acted on like the change alone
    noise = force["noise"] if "noise" in force else (rng.random() < 0.25)
    if noise:
        flags += ["--map-signal", "USR1:"]
    postpone = template == "postpone" or rng.random() < 0.15
    if "postpone" in force:
        postpone = force["postpone"]
    if postpone:
        flags.append("--postpone")
    delay = 0
    if template == "delay-run":
        delay = rng.choice([200, 400])
        flags += ["--delay-run", "%dms" % delay]
    elif template == "exit-in-delay":
        # the command ends by itself while the action for a change is still sitting out its --delay-run
        delay = rng.choice([300, 500])
        flags += ["--delay-run", "%dms" % delay]
    elif template in ("midrun", "back-to-back", "three-step") and rng.random() < 0.25:
        delay = rng.choice([100, 200])
        flags += ["--delay-run", "%dms" % delay]
    if "delay_run_ms" in force and force["delay_run_ms"] != delay:
        flags = [f for f in flags if f != "--delay-run" and not (f.endswith("ms") and flags[flags.index(f) - 1] == "--delay-run")]
        delay = force["delay_run_ms"]
        if delay:
            flags += ["--delay-run", "%dms" % delay]
    # expected stop / on-busy signal number
    if mode == "signal":
        busy_sig = stop_sig[1] if stop_sig else (10 if "--signal" in flags else 15)
    else:
        busy_sig = stop_sig[1] if stop_sig else 15
    child_kind = {"idle": "quick", "at-exit": "medium", "exit-in-delay": "selfexit"}.get(template, rng.choice(["long", "long-ignore", "long-slowexit"]))
    if mode == "signal" and child_kind != "quick" and child_kind != "medium":
        child_kind = "long-ignore"  # the signal must not end the run, so that "no new start" is observable
    child_kind = force.get("child") or child_kind
    run_ms = {"quick": 30, "medium": 400, "selfexit": 800, "long": 1300, "long-ignore": 1300, "long-slowexit": 1300}[child_kind]
    if stop_timeout == 1000 and child_kind.startswith("long"):
        run_ms = 2600  # the run must outlast change + stop timeout by a wide margin, or its own end looks like the kill
    child = ["--exit-after", str(run_ms)]
    if child_kind == "long-ignore":
        child += ["--ignore"]
    elif child_kind == "long-slowexit":
        child += ["--on-signal", "any:60"]
    elif child_kind in ("long", "medium", "selfexit"):
        child += ["--on-signal", "any:0"]
    name = "c05-%d" % idx
    # one scenario in five keeps watchexec's standard input open and passes --stdin-quit: closing it is a third way to ask
    # for the shutdown (besides SIGINT / SIGTERM)
    stdin_quit = rng.random() < 0.2
    if stdin_quit:
        flags = flags + ["--stdin-quit"]
    wx = Wx(scratch, name, flags, child, stdin_pipe=stdin_quit)
    if noise:
        wx.noise_sig = signal.SIGUSR1
    desc = {"noise": noise, "mode": mode_name, "template": template, "child": child_kind, "stop_timeout_ms": stop_timeout, "debounce_ms": debounce,
            "postpone": postpone, "delay_run_ms": delay, "stop_signal": stop_sig[0] if stop_sig else None, "run_ms": run_ms, "mapped_signal": mapped}
    V = []  # (sig, what)
    INC = []
    t_scn = mono()
    # rules that rest on "watchexec reacted within the margin" are verdicts only without scheduling stalls
    TIMING = ("C05/idle-change/extra-runs", "C05/more-runs-than-causes", "C05/do-nothing/extra-run", "C05/queue/not-exactly-one",
              "C05/signal/started-during-run", "C05/signal/not-delivered", "C05/restart/no-stop-signal")
    try:
        if not inotify_ready(wx.p.pid):
            INC.append("watchexec-not-ready")
            return desc, wx, V, INC
        margin = 0.3  # definite mid-run margin (s)
        # ---- first run -----------------------------------------------------------------------
        if not postpone:
            if not wx.wait_starts(1, 6.0 + delay / 1000.0):
                V.append(("C05/first-run/missing", "no run at start-up although --postpone was not given"))
                return desc, wx, V, INC
        else:
            time.sleep(0.25)
            if wx.starts():
                V.append(("C05/first-run/not-postponed", "a run started before any change although --postpone was given"))
                return desc, wx, V, INC
            tb, ta = wx.change()
            if not wx.wait_starts(1, 6.0 + delay / 1000.0):
                V.append(("C05/idle-change/no-run", "the first change under --postpone did not start a run"))
                return desc, wx, V, INC
            s = wx.starts()[0]
            if delay and s["t"] < tb + delay * 1e6:
                V.append(("C05/delay-run/too-early", "run started %.0f ms after the change, --delay-run is %d ms" % ((s["t"] - tb) / 1e6, delay)))

        def current_run():
            rs = runs_of(wx.lines())
            return rs[-1] if rs else None

        if template == "idle" or template == "postpone" or (template == "delay-run" and child_kind == "quick"):
            # changes while idle: each one starts exactly one run
            for _ in range(rng.randint(1, 3)):
                time.sleep(run_ms / 1000.0 + 0.35)
                n0 = len(wx.starts())
                tb, ta = wx.change(rng.randint(1, 3))
                if not wx.wait_starts(n0 + 1, 6.0):
                    V.append(("C05/idle-change/no-run", "a change while the command was idle did not start it"))
                    break
                s = wx.starts()[n0]
                if s["t"] < tb:
                    INC.append("start-before-change")
                time.sleep(run_ms / 1000.0 + 0.3 + debounce / 1000.0)
                tight = (ta - tb) / 1e6 < debounce / 2.0
                nfiles = wx.changes[-1][2]
                caused = len(wx.starts()) - n0
                if (tight and caused != 1) or caused > nfiles:
                    V.append(("C05/idle-change/extra-runs", "one change burst (%d files written within %.0f ms) while idle caused %d runs" % (nfiles, (ta - tb) / 1e6, caused)))
        elif template == "delay-run":
            # two bursts inside the delay of the first: the second action meets a job that is about to start
            time.sleep(run_ms / 1000.0 + 0.4 if not postpone else 0.1)
            n0 = len(wx.starts())
            # wait until idle
            t_idle = time.time()
            while current_run() and current_run()["exit"] is None and time.time() - t_idle < 3:
                time.sleep(0.02)
            n0 = len(wx.starts())
            tb1, _ = wx.change()
            time.sleep(delay / 2000.0)
            tb2, _ = wx.change()
            if not wx.wait_starts(n0 + 1, 6.0):
                V.append(("C05/idle-change/no-run", "changes while idle (with --delay-run) did not start the command"))
            else:
                s = wx.starts()[n0]
                if s["t"] < tb1 + delay * 1e6:
                    V.append(("C05/delay-run/too-early", "run started %.0f ms after the change, --delay-run is %d ms" % ((s["t"] - tb1) / 1e6, delay)))
                # let everything play out: the run must not be killed by the second action
                time.sleep(run_ms / 1000.0 + delay / 1000.0 + 0.6)
        elif template == "exit-in-delay":
            # several rounds: a change shortly before the run ends by itself, so that the end falls inside the delay of the
            # action; in queue mode sometimes preceded by a change deep inside the same run. Every change must be followed
            # by a run that started after it (bounded progress), whatever the race between the end and the action.
            for rnd in range(3):
                r0 = current_run()
                if r0 is None or r0["exit"] is not None:
                    # idle: a change starts a run (after the delay), which becomes this round's run
                    n0 = len(wx.starts())
                    wx.change()
                    if not wx.wait_starts(n0 + 1, 6.0 + delay / 1000.0):
                        V.append(("C05/idle-change/no-run", "a change while the command was idle (with --delay-run) did not start it"))
                        break
                    r0 = current_run()
                if mode == "queue" and rng.random() < 0.5:
                    time.sleep(max(0.0, 0.15 - (mono() - r0["start"]) / 1e9))
                    wx.change()
                frac = rng.choice([0.25, 0.5, 0.75])
                time.sleep(max(0.0, run_ms / 1000.0 - frac * delay / 1000.0 - (mono() - r0["start"]) / 1e9))
                tbc, _ = wx.change()
                t0 = time.time()
                fresh = False
                while time.time() - t0 < 10.0 + stop_timeout / 1000.0:
                    if any(s["t"] > tbc for s in wx.starts()):
                        fresh = True
                        break
                    time.sleep(0.02)
                rep.count("changes_shortly_before_a_self_exit_inside_the_delay", 1)
                if not fresh:
                    V.append(("C05/%s/stale" % mode, "a change made %.0f ms before the command ended by itself (--delay-run %d ms) was not followed by a run that started after it (waited %.0f s)" % (frac * delay, delay, 10.0 + stop_timeout / 1000.0)))
                    break
                time.sleep(0.05)
        elif template in ("midrun", "back-to-back", "grace", "three-step", "at-exit"):
            r0 = current_run()
            if r0 is None:
                INC.append("no-run-to-disturb")
                return desc, wx, V, INC
            if template == "at-exit":
                # aim at the moment of exit: ambiguous class, only timing-free rules apply
                time.sleep(max(0.0, run_ms / 1000.0 - 0.02 - (mono() - r0["start"]) / 1e9))
                wx.change()
                time.sleep(run_ms / 1000.0 + stop_timeout / 1000.0 + 0.8)
            else:
                time.sleep(max(0.0, margin - (mono() - r0["start"]) / 1e9))
                nb = 3 if template == "back-to-back" else 1
                for b in range(nb):
                    tb, ta = wx.change(rng.randint(1, 3))
                    if b + 1 < nb:
                        time.sleep(0.1)
                if template == "grace":
                    time.sleep(0.15)
                    wx.change()
                tb_first = wx.changes[-nb - (1 if template == "grace" else 0)][0] if template != "grace" else wx.changes[-2][0]
                ta_last = wx.changes[-1][1]
                definite = (ta_last - r0["start"]) / 1e9 + debounce / 1000.0 + delay / 1000.0 + margin < run_ms / 1000.0
                # ---- what must follow ---------------------------------------------------------------
                if mode == "do-nothing":
                    time.sleep(max(0.0, run_ms / 1000.0 - (mono() - r0["start"]) / 1e9) + 0.7)
                    rs = runs_of(wx.lines())
                    me = [r for r in rs if r["pid"] == r0["pid"]][0]
                    if me["signals"]:
                        V.append(("C05/do-nothing/signalled", "a change during the run sent signal %d to the command in do-nothing mode" % me["signals"][0][1]))
                    if definite and len(rs) > (2 if postpone else 1) - (1 if postpone else 0) + (0):
                        later = [r for r in rs if r["start"] > me["start"]]
                        if later:
                            V.append(("C05/do-nothing/extra-run", "a change deep inside the run caused another run in do-nothing mode"))
                elif mode == "signal":
                    t0 = time.time()
                    got = False
                    while time.time() - t0 < 3.0:
                        me = [r for r in runs_of(wx.lines()) if r["pid"] == r0["pid"]][0]
                        if any(s == busy_sig and t >= tb_first for t, s in me["signals"]):
                            got = True
                            break
                        time.sleep(0.01)
                    if definite and not got:
                        V.append(("C05/signal/not-delivered", "a change during the run did not deliver signal %d to the running command" % busy_sig))
                    time.sleep(max(0.0, run_ms / 1000.0 - (mono() - r0["start"]) / 1e9) + 0.5)
                    rs = runs_of(wx.lines())
                    me = [r for r in rs if r["pid"] == r0["pid"]][0]
                    if definite and any(r["start"] > me["start"] and (me["exit"] is None or r["start"] < me["exit"]) for r in rs):
                        V.append(("C05/signal/started-during-run", "signal mode started another run while the command was still running"))
                    wrong = [s for t, s in me["signals"] if s != busy_sig]
                    if wrong:
                        V.append(("C05/signal/wrong-signal", "signal mode sent %s instead of %d" % (wrong, busy_sig)))
                elif mode == "restart":
                    n0 = len(wx.starts())
                    ok = wx.wait_starts(n0 + 1, 4.0 + stop_timeout / 1000.0)
                    rs = runs_of(wx.lines())
                    me = [r for r in rs if r["pid"] == r0["pid"]][0]
                    if definite:
                        if stop_timeout >= 100 and not any(s == busy_sig for t, s in me["signals"]):
                            V.append(("C05/restart/no-stop-signal", "a change during the run did not deliver the stop signal %d before restarting" % busy_sig))
                        if not ok:
                            V.append(("C05/restart/no-new-run", "a change during the run was not followed by a fresh run"))
                        elif child_kind == "long-ignore":
                            nxt = [r for r in rs if r["start"] > me["start"]]
                            if nxt and nxt[0]["start"] < tb_first + stop_timeout * 1e6:
                                V.append(("C05/restart/killed-before-stop-timeout", "the command ignoring the stop signal was replaced %.0f ms after the change, --stop-timeout is %d ms" % ((nxt[0]["start"] - tb_first) / 1e6, stop_timeout)))
                    if template == "three-step" and ok:
                        time.sleep(margin)
                        tb3, _ = wx.change()
                        n1 = len(wx.starts())
                        wx.wait_starts(n1 + 1, 4.0 + stop_timeout / 1000.0)
                    time.sleep(0.3)
                elif mode == "queue":
                    # no signal; after the current run ends exactly one further run
                    time.sleep(max(0.0, run_ms / 1000.0 - (mono() - r0["start"]) / 1e9))
                    n_before = len([r for r in runs_of(wx.lines()) if r["start"] <= r0["start"]])
                    ok = wx.wait_starts(n_before + 1, 4.0)
                    rs = runs_of(wx.lines())
                    me = [r for r in rs if r["pid"] == r0["pid"]][0]
                    if me["signals"]:
                        V.append(("C05/queue/signalled", "queue mode sent signal %d to the running command" % me["signals"][0][1]))
                    if definite and not ok:
                        V.append(("C05/queue/no-queued-run", "a change during the run was not followed by a run after it ended"))
                    if ok and template == "three-step":
                        # a change during the queued run must again be followed by a run
                        time.sleep(margin)
                        tb3, _ = wx.change()
                        time.sleep(max(0.0, run_ms / 1000.0 - margin))
                        n1 = len(wx.starts())
                        # wait for the freshness condition below
                    if ok and template != "three-step":
                        time.sleep(run_ms / 1000.0 + 0.6)
                        later = [r for r in runs_of(wx.lines()) if r["start"] > me["start"]]
                        if definite and len(later) != 1:
                            V.append(("C05/queue/not-exactly-one", "%d change burst(s) during one run caused %d further runs (expected exactly one)" % (nb, len(later))))
        # ---- rules for every scenario -----------------------------------------------------------------
        if mode in ("restart", "queue") and wx.changes:
            tb_last = wx.changes[-1][0]
            t0 = time.time()
            fresh = False
            while time.time() - t0 < 10.0 + stop_timeout / 1000.0:
                if any(s["t"] > tb_last for s in wx.starts()):
                    fresh = True
                    break
                time.sleep(0.02)
            if not fresh:
                V.append(("C05/%s/stale" % mode, "the last change was not followed by a run that started after it (waited %.0f s)" % (10.0 + stop_timeout / 1000.0)))
        time.sleep(0.15)
        lines = wx.lines()
        rs = runs_of(lines)
        for r in rs:
            if r["overlap"]:
                V.append(("C05/overlap", "a run started while its predecessor was still alive (%s)" % r["overlap"]))
        # a run that vanished without exit line, without any signal, while watchexec was alive: it was killed
        t_now = mono()
        for r in rs[:-1]:
            # with a zero stop timeout the kill follows the stop signal at once: the command may die before it logs it
            if r["exit"] is None and not r["signals"] and not proc_alive(r["pid"]) and not (mode == "restart" and stop_timeout < 100):
                V.append(("C05/%s/run-killed-without-signal" % mode, "run pid %d disappeared without an exit line and without having been signalled" % r["pid"]))
        nwrites = sum(c[2] for c in wx.changes)
        if len(rs) > 1 + nwrites:
            V.append(("C05/more-runs-than-causes", "%d runs for %d file writes (+1 initial)" % (len(rs), nwrites)))
        rep.count("runs_observed", len(rs))
        rep.count("change_bursts", len(wx.changes))
        rep.count("signals_seen_by_commands", sum(len(r["signals"]) for r in rs))
        if any(abs(c[1] - (r["start"] + run_ms * 1e6)) < 5e6 for c in wx.changes for r in rs):
            rep.count("bursts_within_5ms_of_a_run_end", 1)
    finally:
        pass
    gap = LOAD.max_gap_ms(t_scn)
    if gap > 120:
        kept = [v for v in V if v[0] not in TIMING]
        if len(kept) != len(V):
            rep.inc("timing-rule-on-stalled-machine")
            desc["stalled_ms"] = round(gap)
        V[:] = kept
    return desc, wx, V, INC


def c08_cli_tail(rep, rng, wx, desc, V):
    """Shutdown through SIGINT / SIGTERM: exits in time, the command saw the stop signal, nothing survives."""
    rs = runs_of(wx.lines())
    now = mono()
    run_ns = desc.get("run_ms", 0) * 1e6
    # only runs that are definitely in progress: started >= 200 ms ago and with >= 500 ms to go by themselves
    running = [r for r in rs if r["exit"] is None and proc_alive(r["pid"]) and now - r["start"] > 200e6 and r["start"] + run_ns - now > 500e6]
    sig = rng.choice([signal.SIGINT, signal.SIGTERM])
    if desc.get("mapped_signal") == "TERM":
        sig = signal.SIGINT
    elif desc.get("mapped_signal") == "INT":
        sig = signal.SIGTERM
    stop_timeout = desc.get("stop_timeout_ms", 300)
    signame = sig.name
    if wx.p.stdin is not None:
        if rng.random() < 0.7:
            sig, signame = "stdin-eof", "the end of its standard input (--stdin-quit)"
            rep.count("cli_shutdowns_through_stdin_eof", 1)
    t0, took = wx.shutdown(sig, timeout=stop_timeout / 1000.0 + 6.0)
    rep.count("cli_shutdowns", 1)
    if took is None and sig != "stdin-eof" and wx.p.stdin is not None:
        # still running with its standard input open (--stdin-quit): does it leave as soon as that input ends? Then the
        # shutdown itself was done and only the reader blocked on stdin kept the process alive
        try:
            wx.p.stdin.close()
            wx.p.wait(timeout=3.0)
            V.append(("C08/cli/never-exits/until-stdin-ends", "with --stdin-quit and its standard input still open, watchexec did not exit within %.1f s of %s; it exited once that input was closed" % (stop_timeout / 1000.0 + 6.0, signame)))
            took = (mono() - t0) / 1e9
        except (subprocess.TimeoutExpired, OSError):
            V.append(("C08/cli/never-exits", "watchexec did not exit within %.1f s of %s" % (stop_timeout / 1000.0 + 6.0, signame)))
    elif took is None:
        V.append(("C08/cli/never-exits", "watchexec did not exit within %.1f s of %s" % (stop_timeout / 1000.0 + 6.0, signame)))
    elif took > 2 * stop_timeout / 1000.0 + 1.5:
        V.append(("C08/cli/late-exit", "watchexec exited %.2f s after %s (stop-timeout %d ms)" % (took, signame, stop_timeout)))
    time.sleep(0.1)
    lines = wx.lines()
    for r in running:
        # a graceful stop may already be in progress (restart mode): the signal then precedes the shutdown request
        sigs = [s for t, s in runs_of(lines)[[x["pid"] for x in runs_of(lines)].index(r["pid"])]["signals"] if t >= t0 - (stop_timeout + 300) * 1e6]
        want = {"SIGUSR2": 12, "SIGINT": 2, "SIGHUP": 1}.get(desc.get("stop_signal"), 15)
        if desc.get("mode", "").startswith("signal"):
            want = {"SIGUSR2": 12, "SIGINT": 2, "SIGHUP": 1}.get(desc.get("stop_signal"), 15)
        if took is not None and want not in sigs and stop_timeout >= 100:
            V.append(("C08/cli/no-stop-signal", "the running command did not receive signal %d when watchexec was told to stop by %s (saw %s)" % (want, signame, sigs)))
    t1 = time.time()
    surv = []
    while time.time() - t1 < 2.0:
        surv = [l["pid"] for l in lines if l["ev"] == "start" and proc_alive(l["pid"])]
        if not surv:
            break
        time.sleep(0.05)
    if surv and took is not None:
        V.append(("C08/cli/survivor", "process(es) %s started by watchexec are alive 2 s after it exited" % surv))


# ------------------------------------------------------------------------------------------------
# C18 CLI part

ARG_POOL = ["", " ", "a b", "\"dq\"", "'sq'", "$HOME", "*", "*.rs", ";", "&&", "line1\nline2", "é", "日本語", "🦀", "\\", "-n", "--x", "a=b", "{x,y}", "#c", "~"]


def unhex(s):
    return bytes.fromhex(s)


def c18_scenario(rep, rng, scratch, idx):
    V, INC = [], []
    kind = rng.choice(["exec", "exec", "shell-none", "shell-custom", "shell-custom", "shell-env"])
    wrap = rng.choice(["group", "session", "none"])
    args = [rng.choice(ARG_POOL) for _ in range(rng.randint(0, 6))]
    name = "c18-%d" % idx
    d = os.path.join(scratch, name)
    os.makedirs(d, exist_ok=True)
    log = os.path.join(d, "child.log")
    env = {"VCHILD_LOG": log, "VCHILD_TAG": "c", "VCHILD_OPTS": "--dump --exit-after 5 --no-overlap-probe"}
    flags = ["-1", "--wrap-process=" + wrap]
    prog = VCHILD
    if kind in ("exec", "shell-none") and rng.random() < 0.4:
        # the program itself is a hostile word: a path with spaces / quotes, often as the only element of the command
        pdir = os.path.join(d, rng.choice(["my tools", "a  b", "it's", "x;y", "tab\there"]))
        os.makedirs(pdir, exist_ok=True)
        prog = os.path.join(pdir, rng.choice(["v child", "run me --now", "helper"]))
        if not os.path.lexists(prog):
            os.symlink(VCHILD, prog)
        if rng.random() < 0.6:
            args = []
    if kind == "exec":
        override = ["-n", "--", prog] + args
        expected = [prog.encode()] + [a.encode() for a in args]
    elif kind == "shell-none":
        override = ["--shell=none", "--", prog] + args
        expected = [prog.encode()] + [a.encode() for a in args]
    else:
        opts = [rng.choice(["-x", "opt1", "--flag=1", "o"]) for _ in range(rng.randint(0, 2))]
        # the helper *is* the shell: it must be called as <shell> <options...> -c "<words joined by single spaces>"
        words = [w for w in args if w != ""] or ["true"]
        expected = [VCHILD.encode()] + [o.encode() for o in opts] + [b"-c", " ".join(words).encode()]
        if kind == "shell-env":
            # no --shell at all: the shell named by $SHELL, no options
            opts = []
            expected = [VCHILD.encode(), b"-c", " ".join(words).encode()]
            env["SHELL"] = VCHILD
            override = ["--"] + words
        else:
            # the shell and its options are separated by blanks: one, several, a tab, blanks around the whole value
            sep = rng.choice([" ", " ", "  ", "\t", " \t "])
            val = sep.join([VCHILD] + opts)
            if rng.random() < 0.3:
                val = rng.choice([" ", ""]) + val + rng.choice([" ", "  ", "\t"])
            override = ["--shell=" + val, "--"] + words
            if sep != " " or val != val.strip():
                rep.count("cli_shell_values_with_irregular_blanks", 1)
    desc = {"kind": kind, "wrap": wrap, "args": args, "prog": os.path.relpath(prog, d) if prog != VCHILD else "helper"}
    wx = Wx(scratch, name, flags, [], extra_env=env, cmd_override=override)
    wx.log = log
    try:
        try:
            wx.p.wait(timeout=15 * VG_SLOW)
        except subprocess.TimeoutExpired:
            if VG:
                INC.append("memcheck: watchexec -1 did not exit within %d s inside valgrind" % (15 * VG_SLOW))
            else:
                V.append(("C18/cli/once-never-exits", "watchexec -1 did not exit within 15 s"))
            return desc, wx, V, INC
        lines = read_log(log)
        dump = {}
        for l in lines:
            if l["ev"].startswith("argv"):
                rest = l["ev"][5:]
                dump["argv"] = [unhex(x) for x in rest.split(",")] if rest != "" or True else []
            if l["ev"] == "start":
                dump["start"] = l
        if "start" not in dump:
            V.append(("C18/cli/child-did-not-run", "the command never wrote its start line"))
            return desc, wx, V, INC
        rep.count("cli_spawns_compared", 1)
        if dump.get("argv") != expected:
            V.append(("C18/cli/argv/%s" % kind, "the command received %r, configured %r" % (dump.get("argv"), expected)))
        s = dump["start"]
        if wrap == "group" and s["pgid"] != s["pid"]:
            V.append(("C18/cli/wrap/group", "--wrap-process=group: pid %d pgid %d" % (s["pid"], s["pgid"])))
        if wrap == "session" and s["sid"] != s["pid"]:
            V.append(("C18/cli/wrap/session", "--wrap-process=session: pid %d sid %d" % (s["pid"], s["sid"])))
        if wrap == "none" and (s["pgid"] == s["pid"] or s["ppid"] != wx.p.pid):
            V.append(("C18/cli/wrap/none", "--wrap-process=none: pid %d pgid %d ppid %d (watchexec %d)" % (s["pid"], s["pgid"], s["ppid"], wx.p.pid)))
    finally:
        pass
    return desc, wx, V, INC


# ------------------------------------------------------------------------------------------------
# memcheck overlay (thorough tier): the production binary inside valgrind; the spawn / signal / kill / reap paths cross
# into C (fork, exec, setsid, killpg, waitid) where Miri cannot follow

VG_FRAME = None


def memcheck_scan(rep, prop, wx, V):
    """Every error block valgrind wrote for this watchexec process is a violation keyed by its first watchexec frame."""
    import glob
    import re as _re
    n = 0
    for path in glob.glob(os.path.join(wx.dir, "vg.*.log")):
        n += 1
        try:
            with open(path, errors="replace") as f:
                lines = f.read().splitlines()
        except OSError:
            continue
        blocks, cur = [], []
        for l in lines:
            if l.startswith("=="):
                body = l.split("== ", 1)[1] if "== " in l else ""
                if body.strip() == "":
                    if cur:
                        blocks.append(cur)
                    cur = []
                else:
                    cur.append(body)
            elif l.startswith("--"):
                rep.count("memcheck_tool_warnings_ignored (unhandled syscall etc.)")
        if cur:
            blocks.append(cur)
        for b in blocks:
            frame = next((x.strip() for x in b if _re.search(r"watchexec|process_wrap|command_group|ignore_files|project_origins", x)), b[0])
            frame = _re.sub(r"0x[0-9A-Fa-f]+: ", "", frame)
            frame = _re.sub(r"\(.*$", "", frame).strip()
            V.append(("%s/memcheck/%s" % (prop, frame[:90]), "valgrind memcheck reported: %s" % " | ".join(b[:8])))
            rep.count("memcheck_error_blocks")
    rep.count("memcheck_processes_monitored", n)
    if n == 0:
        rep.count("memcheck_log_missing")


def vg_scenario(rep, rng, scratch, idx, prop):
    """Start, change (restart / queue / signal path), terminate: judged by memcheck and the timing-free survivor rule only."""
    V, INC = [], []
    mode = rng.choice(["restart", "queue", "signal", "do-nothing"])
    wrap = rng.choice(["group", "session", "none"])
    child = rng.choice(["long", "ignore", "quick"])
    sig = rng.choice([signal.SIGTERM, signal.SIGINT])
    flags = ["--on-busy-update=" + mode, "--wrap-process=" + wrap, "--stop-timeout=300ms", "--debounce=20ms"]
    if mode == "signal":
        flags.append("--signal=SIGUSR1")
    child_opts = {"long": ["--exit-after", "60000", "--on-signal", "any:30"], "ignore": ["--exit-after", "60000", "--ignore"],
                  "quick": ["--exit-after", "50"]}[child] + ["--no-overlap-probe"]
    desc = {"template": "memcheck", "mode": mode, "wrap": wrap, "child": child, "quit": int(sig)}
    wx = Wx(scratch, "vg-%d" % idx, flags, child_opts)
    if not wx.wait_starts(1, 120):
        INC.append("memcheck: no first run within 120 s inside valgrind")
        return desc, wx, V, INC
    inotify_ready(wx.p.pid, 60)
    for k in range(2):
        wx.change(2)
        wx.wait_starts(2 + k, 20)
    t0, took = wx.shutdown(sig, timeout=120)
    if took is None:
        INC.append("memcheck: no exit within 120 s of the signal inside valgrind")
        return desc, wx, V, INC
    rep.count("memcheck_full_lifecycles (start, change, quit)")
    rep.count("memcheck_command_runs_observed", len(wx.starts()))
    time.sleep(0.3)
    for l in wx.lines():
        if l["ev"] == "start" and l["tag"] == "c" and proc_alive(l["pid"]):
            V.append(("C08/cli/survivor-after-exit/%s" % wrap, "command pid %d still alive after watchexec exited" % l["pid"]))
    return desc, wx, V, INC


# ------------------------------------------------------------------------------------------------
# C12 end-to-end slice: which probe files are reported by the production binary under ignore-flag combinations

C12_FLAGS = ["--no-vcs-ignore", "--no-project-ignore", "--no-global-ignore", "--no-default-ignore", "--no-discover-ignore", "--ignore-nothing"]


def c12_active(src, flags):
    vcs, proj, glob, dflt, disc, nothing = [f in flags for f in C12_FLAGS]
    return {"proj_vcs": not (vcs or proj or disc or nothing), "proj_gen": not (proj or disc or nothing),
            "glob_vcs": not (vcs or glob or disc or nothing), "glob_app": not (glob or disc or nothing),
            "default": not (dflt or nothing), "explicit": True}[src]


def c12_scenario(rep, rng, scratch, idx):
    V, INC = [], []
    flags = [f for f in C12_FLAGS if rng.random() < 0.35]
    name = "c12-%d" % idx
    d = os.path.join(scratch, name)
    proj = os.path.join(d, "proj")
    xdg = os.path.join(d, "xdg")
    for sub in (os.path.join(proj, ".git"), os.path.join(xdg, "git"), os.path.join(xdg, "watchexec")):
        os.makedirs(sub, exist_ok=True)
    open(os.path.join(proj, ".git", "HEAD"), "w").write("ref: refs/heads/main\n")
    open(os.path.join(proj, ".git", "config"), "w").write("[core]\n\tbare = false\n")
    open(os.path.join(proj, ".gitignore"), "w").write("vcs_proj.x\n")
    open(os.path.join(proj, ".ignore"), "w").write("gen_proj.x\n")
    open(os.path.join(xdg, "git", "ignore"), "w").write("vcs_glob.x\n")
    open(os.path.join(xdg, "watchexec", "ignore"), "w").write("app_glob.x\n")
    extra = os.path.join(d, "extra.ignore")
    # the explicit ignore file has a file-name line and a line naming a directory (everything below it is ignored too)
    open(extra, "w").write("exp_igf.x\nexpdir/\n")
    os.makedirs(os.path.join(proj, "expdir", "deeper"), exist_ok=True)
    probes = {"vcs_proj.x": "proj_vcs", "gen_proj.x": "proj_gen", "vcs_glob.x": "glob_vcs", "app_glob.x": "glob_app",
              "m.pyc": "default", "exp_ign.x": "explicit", "exp_igf.x": "explicit", "expdir/exp_inner.x": "explicit",
              "expdir/deeper/exp_inner2.x": "explicit", "plain.txt": None}
    desc = {"kind": "c12-e2e", "flags": flags}
    out_path = os.path.join(d, "events.out")
    wx = Wx(scratch, name, flags + ["--ignore", "exp_ign.x", "--ignore-file", extra, "--debounce", "30ms"], [],
            cmd_override=["--only-emit-events", "--emit-events-to=json-stdio"])
    # Wx sends stdout to /dev/null: restart with stdout captured
    wx.cleanup()
    cmd = wx.cmd
    env = dict(os.environ, HOME=d, XDG_CONFIG_HOME=xdg, GIT_CONFIG_NOSYSTEM="1")
    env.pop("RUST_LOG", None)
    outf = open(out_path, "wb")
    wx.err = open(os.path.join(wx.dir, "wx.err"), "ab")
    wx.p = subprocess.Popen(cmd, cwd=proj, stdin=subprocess.DEVNULL, stdout=outf, stderr=wx.err, env=env, start_new_session=True)
    try:
        if not inotify_ready(wx.p.pid):
            INC.append("watchexec-not-ready")
            return desc, wx, V, INC
        time.sleep(0.05)
        for f in probes:
            with open(os.path.join(proj, f), "w") as fh:
                fh.write("1")
        time.sleep(0.25)
        # sentinels, twice, to know the pipeline has drained
        for k in range(2):
            with open(os.path.join(proj, "sentinel%d.txt" % k), "w") as fh:
                fh.write("s")
            time.sleep(0.2)
        outf.flush()
        seen = set()
        sentinels = 0
        with open(out_path, "rb") as fh:
            for line in fh.read().decode("utf8", "replace").splitlines():
                try:
                    ev = json.loads(line)
                except ValueError:
                    continue
                for t in ev.get("tags", []):
                    if t.get("kind") == "path":
                        b = os.path.basename(t.get("absolute", ""))
                        if b.startswith("sentinel"):
                            sentinels += 1
                        seen.add(b)
        if sentinels == 0:
            INC.append("sentinel-not-reported")
            return desc, wx, V, INC
        rep.count("c12_e2e_probe_sets", 1)
        for f, src in probes.items():
            want_reported = True if src is None else not c12_active(src, flags)
            got = os.path.basename(f) in seen
            if got != want_reported:
                if src == "explicit":
                    V.append(("C12/e2e/explicit/%s/not-honoured" % f, "production binary with %s reports %s although an explicit option ignores it" % (flags, f)))
                elif src is None:
                    V.append(("C12/e2e/plain-file-not-reported", "production binary with %s did not report plain.txt" % flags))
                else:
                    V.append(("C12/e2e/source/%s/%s" % (src, "still-applied" if want_reported else "dropped"),
                              "production binary with %s: %s is %s" % (flags, f, "reported" if got else "not reported")))
    finally:
        outf.close()
    return desc, wx, V, INC


# ------------------------------------------------------------------------------------------------
# C17 end-to-end slice: the environment a command actually receives for real changes

def c17_scenario(rep, rng, scratch, idx):
    V, INC = [], []
    name = "c17-%d" % idx
    # how the batch reaches the command: the environment summary, or the line-based / JSON formats through a file
    # named in the environment or through the command's standard input
    mode = rng.choice(["environment", "environment", "file", "stdio", "json-file", "json-stdio"])
    copts = ["--dump", "--exit-after", "5", "--no-overlap-probe"] + (["--read-stdin"] if mode.endswith("stdio") else [])
    wx = Wx(scratch, name, ["--postpone", "--debounce", "120ms", "--emit-events-to=" + mode], copts)
    desc = {"kind": "c17-e2e", "emit": mode}
    try:
        if not inotify_ready(wx.p.pid):
            INC.append("watchexec-not-ready")
            return desc, wx, V, INC
        dirs = ["", "a", "a/b", "c d"]
        for dd in dirs:
            os.makedirs(os.path.join(wx.proj, dd), exist_ok=True)
        time.sleep(0.3)  # directory creation events drain (they start a run of their own)
        n0 = len(wx.starts())
        # wait for quiet
        t0 = time.time()
        while time.time() - t0 < 3:
            n1 = len(wx.starts())
            time.sleep(0.35)
            if len(wx.starts()) == n1:
                break
        n0 = len(wx.starts())
        files = []
        for _ in range(rng.randint(1, 4)):
            rel = os.path.join(rng.choice(dirs), "f%d é.txt" % rng.randint(0, 99))
            files.append(rel)
        t_burst = mono()
        for rel in files:
            with open(os.path.join(wx.proj, rel), "w") as fh:
                fh.write("x")
        # all changes must fall into one debounce window (120 ms) for the first run's environment to cover them
        if (mono() - t_burst) / 1e6 > 40 or LOAD.max_gap_ms(t_burst) > 40:
            INC.append("burst-spread-over-several-windows")
            return desc, wx, V, INC
        if not wx.wait_starts(n0 + 1, 6.0):
            INC.append("no-run-after-change")
            return desc, wx, V, INC
        time.sleep(0.1)
        lines = wx.lines()
        pid = wx.starts()[n0]["pid"]
        envline = [l for l in lines if l["pid"] == pid and l["ev"].startswith("env")]
        if not envline:
            INC.append("no-env-dump")
            return desc, wx, V, INC
        env = {}
        body = envline[0]["ev"][4:]
        for kv in body.split(","):
            if "=" in kv:
                k, v = kv.split("=", 1)
                env[bytes.fromhex(k).decode()] = bytes.fromhex(v).decode("utf8", "replace")
        if LOAD.max_gap_ms(t_burst) > 40:
            INC.append("machine-stalled-during-debounce-window")
            return desc, wx, V, INC
        if mode != "environment":
            c17_lines_mode(rep, wx, mode, env, [l for l in lines if l["pid"] == pid], files, V, INC)
            desc["files"] = files
            return desc, wx, V, INC
        rep.count("c17_e2e_environments", 1)
        common = env.get("WATCHEXEC_COMMON_PATH")
        if common is None:
            V.append(("C17/e2e/no-common", "the command saw no WATCHEXEC_COMMON_PATH after real file changes: %s" % sorted(env)))
            return desc, wx, V, INC
        recovered = set()
        for k, v in env.items():
            if k.startswith("WATCHEXEC_") and k.endswith("_PATH") and k != "WATCHEXEC_COMMON_PATH":
                ents = v.split(":")
                if ents != sorted(set(ents), key=lambda s: s.encode()):
                    V.append(("C17/e2e/not-sorted-unique", "%s=%r is not unique and byte-sorted" % (k, v)))
                for e in ents:
                    recovered.add(os.path.normpath(os.path.join(common, e)))
        want = {os.path.normpath(os.path.join(os.path.realpath(wx.proj), f)) for f in files}
        missing = want - recovered
        if missing:
            V.append(("C17/e2e/changed-path-not-recoverable", "changed files %s cannot be recovered from the environment %s" % (sorted(missing), {k: v for k, v in env.items() if k.startswith("WATCHEXEC_")})))
        stray = {r for r in recovered if not r.startswith(os.path.realpath(wx.proj))}
        if stray:
            V.append(("C17/e2e/entry-outside-project", "entries %s do not lie in the watched project" % sorted(stray)))
        desc["files"] = files
    finally:
        pass
    return desc, wx, V, INC


def c17_lines_mode(rep, wx, mode, env, mylines, files, V, INC):
    """The batch as the command received it through a file or its standard input (line-based or JSON lines)."""
    import json as _json
    if mode.endswith("stdio"):
        got = [l for l in mylines if l["ev"].startswith("stdin ")]
        if not got:
            INC.append("no-stdin-dump")
            return
        data = bytes.fromhex(got[0]["ev"][6:].strip())
    else:
        path = env.get("WATCHEXEC_EVENTS_FILE")
        if not path:
            V.append(("C17/e2e/no-events-file", "--emit-events-to=%s: the command saw no WATCHEXEC_EVENTS_FILE (%s)" % (mode, sorted(env))))
            return
        try:
            with open(path, "rb") as fh:
                data = fh.read()
        except OSError as e:
            INC.append("events-file-unreadable")
            return
    rep.count("c17_e2e_batches_through_%s" % mode.replace("-", "_"), 1)
    text = data.decode("utf8", "replace")
    root = os.path.realpath(wx.proj)
    want = {os.path.normpath(os.path.join(root, f)) for f in files}
    seen = set()
    rows = [r for r in text.split("\n") if r]
    if mode.startswith("json"):
        for r in rows:
            try:
                ev = _json.loads(r)
            except ValueError:
                V.append(("C17/e2e/json-line-unparsable", "--emit-events-to=%s: line %r is not a JSON object" % (mode, r[:200])))
                return
            tags = ev.get("tags") if isinstance(ev, dict) else None
            if not isinstance(tags, list) or not tags:
                V.append(("C17/e2e/json-line-without-tags", "--emit-events-to=%s: line %r has no tags" % (mode, r[:200])))
                continue
            for t in tags:
                if isinstance(t, dict) and t.get("kind") == "path" and "absolute" in t:
                    seen.add(os.path.normpath(t["absolute"]))
    else:
        pairs = []
        for r in rows:
            kind, sep, path = r.partition(":")
            if not sep or kind not in ("create", "modify", "remove", "access", "other") or not path.startswith("/"):
                V.append(("C17/e2e/line-malformed", "--emit-events-to=%s: line %r is not <kind>:<absolute path>" % (mode, r[:200])))
                continue
            pairs.append((kind, path))
            seen.add(os.path.normpath(path))
        rep.count("c17_e2e_lines", len(pairs))
        # a file that was created and written shows up under both kinds
        for w in want:
            kinds = {k for k, p in pairs if os.path.normpath(p) == w}
            if kinds and not (kinds & {"create", "modify"}):
                V.append(("C17/e2e/line-kind", "a created and written file is listed only as %s" % sorted(kinds)))
    missing = want - seen
    if missing:
        V.append(("C17/e2e/changed-path-not-listed", "--emit-events-to=%s: changed files %s are not in what the command received: %r" % (mode, sorted(missing), text[:600])))
    stray = {x for x in seen if not x.startswith(root)}
    if stray:
        V.append(("C17/e2e/entry-outside-project", "entries %s do not lie in the watched project" % sorted(stray)))


# ------------------------------------------------------------------------------------------------

def main():
    o = parse_args()
    prop = o["prop"]
    rep = Report()
    rng = random.Random(o["seed"] * 1000003 + o["shard"] * 7919 + 1)
    scratch = o["scratch"]
    os.makedirs(scratch, exist_ok=True)
    # self-test of the harness: the helper must run and log by itself, the binary under test must exist
    st = os.path.join(scratch, "selftest.log")
    try:
        subprocess.run([VCHILD, st, "selftest", "--exit-after", "1", "--no-overlap-probe"], timeout=10, stdin=subprocess.DEVNULL)
    except (OSError, subprocess.TimeoutExpired) as e:
        sys.stderr.write("wxcli: the vchild helper cannot be run (%s): harness error\n" % e)
        sys.exit(3)
    if not any(l["ev"] == "start" for l in read_log(st)) or not os.access(WATCHEXEC, os.X_OK):
        sys.stderr.write("wxcli: helper self-test failed or %s is missing: harness error\n" % WATCHEXEC)
        sys.exit(3)
    global VG, VG_SLOW, FORCE
    if o.get("replay"):
        # replay: the recorded scenario's parameters, repeated for the whole budget (the races are real-time ones)
        try:
            with open(o["replay"]) as f:
                FORCE = (json.load(f).get("witness") or {}).get("scenario") or None
        except (OSError, ValueError):
            FORCE = None
    if o.get("valgrind"):
        VG, VG_SLOW = True, 8
    LOAD.start()
    deadline = time.time() + o["budget"]
    idx = [0]
    lock = threading.Lock()

    def worker(wi):
        lrng = random.Random(rng.random() + wi)
        while time.time() < deadline - 4:
            with lock:
                idx[0] += 1
                i = idx[0]
            if VG and prop != "C18":
                desc, wx, V, INC = vg_scenario(rep, lrng, scratch, i, prop)
            elif prop in ("C05", "C08"):
                desc, wx, V, INC = c05_scenario(rep, lrng, scratch, i, force=FORCE)
                if not INC:
                    c08_cli_tail(rep, lrng, wx, desc, V)
            elif prop == "C12":
                desc, wx, V, INC = c12_scenario(rep, lrng, scratch, i)
            elif prop == "C17":
                desc, wx, V, INC = c17_scenario(rep, lrng, scratch, i)
            else:
                desc, wx, V, INC = c18_scenario(rep, lrng, scratch, i)
            if VG:
                if wx.p.poll() is None:
                    wx.cleanup()
                memcheck_scan(rep, prop, wx, V)
                desc["memcheck"] = True
            with lock:
                rep.evaluations += 1
            if getattr(wx, "noise_sent", 0):
                rep.count("changes_accompanied_by_a_discarded_signal_in_the_same_window", wx.noise_sent)
            h = hashlib.sha1(json.dumps(desc, sort_keys=True).encode()).hexdigest()[:16]
            if desc.get("template") != "idle" or prop in ("C18", "C12", "C17"):
                with lock:
                    rep.nontrivial.add(h)
            for r in INC:
                rep.inc(r)
            w = None
            for sig, what in V:
                owner = sig.split("/")[0]
                if owner != prop:
                    rep.count("out_of_scope::" + sig)
                    continue
                if w is None:
                    w = wx.witness({"scenario": desc})
                rep.vio(sig, what, w)
            with lock:
                if len(rep.samples) < 2:
                    rep.samples.append(wx.witness({"scenario": desc}))
            wx.cleanup()

    nthreads = 3 if prop in ("C05", "C08") else 2
    ts = [threading.Thread(target=worker, args=(i,)) for i in range(nthreads)]
    for t in ts:
        t.start()
    for t in ts:
        t.join()
    rep.dump(o["out"])


if __name__ == "__main__":
    main()
