#!/usr/bin/env python3
"""Confirm a seeded change produced by a sub-agent, in a scratch worktree of /repo's HEAD:
  (1) the patch applies, (2) the demonstration passes without it, (3) fails with it,
  (4) the whole existing test suite still passes with it.
On success the change is stored as /verif/seeded/<id>/ (patch.diff, demo files, meta.json).

usage: confirm_mutant.py <PROP> <n> [--src /tmp/mut/<PROP>/_out] [--id NAME]
"""
import json, os, re, shutil, subprocess, sys, time

PKG = {"crates/lib": "watchexec", "crates/supervisor": "watchexec-supervisor", "crates/cli": "watchexec-cli",
       "crates/events": "watchexec-events", "crates/signals": "watchexec-signals", "crates/ignore-files": "ignore-files",
       "crates/project-origins": "project-origins", "crates/filterer/globset": "watchexec-filterer-globset",
       "crates/filterer/ignore": "watchexec-filterer-ignore"}
SLOT = os.environ.get("CM_SLOT", "")
WT = "/tmp/cm/wt" + SLOT
TARGET = "/tmp/cm/target" + SLOT


def sh(cmd, cwd=None, timeout=3000):
    env = dict(os.environ, CARGO_TARGET_DIR=TARGET, CARGO_NET_OFFLINE="true", RUST_BACKTRACE="0")
    r = subprocess.run(cmd, shell=True, cwd=cwd, env=env, text=True, capture_output=True, timeout=timeout)
    return r.returncode, (r.stdout + r.stderr)


def main():
    prop, n = sys.argv[1], sys.argv[2]
    src = "/tmp/mut/%s/_out" % prop
    sid = "%s-m%s" % (prop, n)
    a = sys.argv[3:]
    while a:
        if a[0] == "--src":
            src = a[1]
        elif a[0] == "--id":
            sid = a[1]
        a = a[2:]
    patch = os.path.join(src, "change%s.diff" % n)
    if "--patch" in sys.argv:
        patch = sys.argv[sys.argv.index("--patch") + 1]
    demo = os.path.join(src, "demo%s" % n)
    run_md = open(os.path.join(demo, "RUN.md")).read()
    # destination of each demo file: "`name` -> copy to `path`" (several phrasings)
    files = {}
    for f in os.listdir(demo):
        if f in ("RUN.md",) or f.endswith(".txt"):
            continue
        m = re.search(r"`?%s`?\s*(?:->|→|:)?\s*(?:copy|goes|place|put)[^`\n]*`([^`\n]+)`" % re.escape(f), run_md)
        dest = m.group(1) if m else None
        if dest and dest.endswith("/"):
            dest = dest + f
        if not dest:
            m = re.search(r"(crates/[\w/-]+/(?:tests|examples)/)", run_md)
            dest = (m.group(1) + f) if m else None
        files[f] = dest
    res = {"id": sid, "property": prop, "files": files, "steps": {}}
    print("demo files:", files)
    if not files or any(v is None for v in files.values()):
        res["error"] = "cannot tell where the demonstration files go"
        print(json.dumps(res, indent=1))
        return 2
    tests = [os.path.splitext(os.path.basename(d))[0] for d in files.values() if "/tests/" in d and d.endswith(".rs")]
    crate = next((k for k in PKG if list(files.values())[0].startswith(k + "/")), None)
    if not tests or not crate:
        res["error"] = "demonstration is not an integration test; confirm by hand"
        print(json.dumps(res, indent=1))
        return 2
    pkg = PKG[crate]

    sh("git -C /repo worktree remove --force %s" % WT)
    shutil.rmtree(WT, ignore_errors=True)
    os.makedirs("/tmp/cm", exist_ok=True)
    rc, out = sh("git -C /repo worktree add --detach %s HEAD" % WT)
    if rc != 0:
        print(out)
        return 2
    try:
        rc, out = sh("git apply --check %s" % patch, cwd=WT)
        res["steps"]["applies_cleanly"] = rc == 0
        if rc != 0:
            rc, out = sh("git apply --check -C1 %s" % patch, cwd=WT)
            res["steps"]["applies_with_C1"] = rc == 0
            if rc != 0:
                res["error"] = "patch does not apply to HEAD: " + out[-400:]
                print(json.dumps(res, indent=1))
                return 3
            apply_cmd = "git apply -C1 %s" % patch
        else:
            apply_cmd = "git apply %s" % patch
        for f, dest in files.items():
            os.makedirs(os.path.dirname(os.path.join(WT, dest)), exist_ok=True)
            shutil.copy(os.path.join(demo, f), os.path.join(WT, dest))
        tcmd = "cargo test --offline --workspace %s -- --nocapture --test-threads 1" % " ".join("--test " + t for t in tests)
        t0 = time.time()
        rc0, out0 = sh(tcmd, cwd=WT)
        res["steps"]["demo_without_change_passes"] = rc0 == 0
        rc, out = sh(apply_cmd, cwd=WT)
        rc1, out1 = sh(tcmd, cwd=WT)
        res["steps"]["demo_with_change_fails"] = rc1 != 0 and "error[" not in out1 and "could not compile" not in out1
        res["demo_tail_with_change"] = out1[-700:]
        # the existing suite, unedited (demo removed)
        for dest in files.values():
            os.remove(os.path.join(WT, dest))
        rc2, out2 = sh("cargo nextest run --workspace --no-fail-fast --test-threads 8 --offline", cwd=WT)
        m = re.search(r"(\d+) tests run: (\d+) passed", out2)
        res["steps"]["suite_passes_with_change"] = rc2 == 0 and bool(m) and m.group(1) == m.group(2)
        res["suite_summary"] = m.group(0) if m else out2[-300:]
        res["wall_s"] = round(time.time() - t0)
        ok = all(res["steps"].get(k) for k in ("demo_without_change_passes", "demo_with_change_fails", "suite_passes_with_change"))
        res["confirmed"] = ok
        if ok:
            d = os.path.join("/verif/seeded", sid)
            os.makedirs(os.path.join(d, "demo"), exist_ok=True)
            # store the patch as it applies to HEAD
            rc, diff = sh("git diff", cwd=WT)
            open(os.path.join(d, "patch.diff"), "w").write(diff if diff.strip() else open(patch).read())
            for f in os.listdir(demo):
                shutil.copy(os.path.join(demo, f), os.path.join(d, "demo", f))
            notes = os.path.join(src, "notes.md")
            if os.path.exists(notes):
                shutil.copy(notes, os.path.join(d, "notes.md"))
            json.dump({"property": prop, "origin": "sub-agent given only the property text and a scratch worktree",
                       "needs": "see notes.md / demo/RUN.md", "demo_destination": files,
                       "ran": ["git apply patch.diff", tcmd + "  (fails with, passes without)",
                               "cargo nextest run --workspace --no-fail-fast --offline (%s)" % res["suite_summary"]],
                       "confirmed_at_repo_commit": sh("git -C /repo rev-parse --short HEAD")[1].strip()},
                      open(os.path.join(d, "meta.json"), "w"), indent=1)
    finally:
        sh("git -C /repo worktree remove --force %s" % WT)
        shutil.rmtree(WT, ignore_errors=True)
    print(json.dumps(res, indent=1))
    return 0 if res.get("confirmed") else 1


if __name__ == "__main__":
    sys.exit(main())
