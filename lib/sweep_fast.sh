#!/bin/bash
# Many seeds of the virtual-time and input-space checks (cheap, deterministic per seed): hunts seed-specific false alarms.
cd "$(dirname "$0")/.."
for s in $(seq ${1:-6} ${2:-30}); do
  for p in C04 C06 C07 C09 C10 C03 C11 C14 C16 C17 C20; do
    out=$(VERIF_SEED=$s ./check $p quick 2>&1)
    rc=$?
    echo "seed=$s rc=$rc $(echo "$out" | grep -E "^C[0-9]+ quick" | tail -1)"
    echo "$out" | grep -E "^VIOLATION|^  ->|HARNESS-ERROR|watchdog|crashed" | head -5
  done
done
