#!/bin/bash
# Run every quick check at several seeds (and optionally thorough) on the unchanged tree; print one line per run.
# usage: lib/sweep.sh "1 2 3" [thorough]
cd "$(dirname "$0")/.."
seeds=${1:-"1 2"}
tier=${2:-quick}
for s in $seeds; do
  for p in C01 C02 C03 C04 C05 C06 C07 C08 C09 C10 C11 C12 C13 C14 C15 C16 C17 C18 C19 C20; do
    out=$(VERIF_SEED=$s ./check $p $tier 2>&1)
    rc=$?
    echo "seed=$s rc=$rc $(echo "$out" | grep -E "^C[0-9]+ (quick|thorough)" | tail -1)"
    echo "$out" | grep -E "^VIOLATION|^  ->|HARNESS-ERROR|watchdog|crashed" | head -5
  done
done
