#!/usr/bin/env python3
"""Parse ThreadSanitizer logs: count reports, classify by whether one of the two racing accesses happens in
watchexec code (one of the first frames of either access stack is a watchexec_* / watchexec:: symbol)."""
import glob
import re

REPO_SYM = re.compile(r"\b(watchexec_supervisor|watchexec_events|watchexec_signals|watchexec_filterer|ignore_files|project_origins|watchexec)::")


def parse(prefix):
    total, external = 0, 0
    inrepo = {}
    for f in glob.glob(prefix + "*"):
        try:
            txt = open(f, errors="replace").read()
        except OSError:
            continue
        for rep in txt.split("WARNING: ThreadSanitizer:")[1:]:
            total += 1
            kind = rep.splitlines()[0].split("(")[0].strip()
            # the access stacks are the first two "#0 .." groups; take the first 4 frames of each
            stacks = re.split(r"\n\s*\n", rep)
            tops = []
            for st in stacks[:2]:
                frames = re.findall(r"#(\d+) ([^\n]*)", st)
                tops.append([fr[1] for fr in frames[:4]])
            hit = None
            for t in tops:
                for fr in t:
                    if REPO_SYM.search(fr) and "tokio::" not in fr.split(" ")[0]:
                        hit = REPO_SYM.search(fr).group(0) + fr.split(REPO_SYM.search(fr).group(0), 1)[1][:80]
                        break
                if hit:
                    break
            if hit:
                key = "%s in %s" % (kind, re.sub(r"\s*\(.*", "", hit))
                inrepo.setdefault(key, []).append(rep[:3000])
            else:
                external += 1
    return total, external, inrepo


if __name__ == "__main__":
    import sys
    t, e, r = parse(sys.argv[1])
    print("reports", t, "external (tokio/std internals only)", e, "in watchexec code", {k: len(v) for k, v in r.items()})
