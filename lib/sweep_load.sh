#!/bin/bash
# The quick sweep with N CPU burners running beside it (robustness of the timing rules on a loaded machine).
# usage: lib/sweep_load.sh "<seeds>" [burners]
cd "$(dirname "$0")/.."
n=${2:-12}
pids=""
for i in $(seq 1 $n); do ( while :; do :; done ) & pids="$pids $!"; done
trap "kill $pids 2>/dev/null" EXIT
./lib/sweep.sh "$1" quick
