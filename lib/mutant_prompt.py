#!/usr/bin/env python3
"""Print the prompt given to a fresh sub-agent that seeds a property-breaking change (nothing from /verif but the property text)."""
import json, sys
pid = sys.argv[1]
wt = sys.argv[2]
rec = next(json.loads(l) for l in open('/verif/properties.jsonl') if json.loads(l)['id'] == pid)
prop = {k: rec[k] for k in ('id', 'title', 'statement', 'quantifier', 'why_tests_cant', 'anchors')}
print(f"""You are helping to evaluate a verification framework for the Rust project watchexec (a CLI and library that watches
filesystem paths, filters events and supervises / restarts commands). Your job is to play the role of a developer who
introduces a subtle regression.

You have your own scratch git worktree of the repository at {wt} (a detached checkout; work ONLY there, never touch /repo
or /verif, and do not read anything under /verif). The sandbox is offline: always pass --offline to cargo
(CARGO_NET_OFFLINE=true). Use `CARGO_TARGET_DIR={wt}/target` for every cargo command.

Here is a semantic property of watchexec that should hold on the unchanged code:

{json.dumps(prop, indent=1)}

TASK: produce ONE or TWO (independent, different mechanisms; each as its own patch) realistic source changes to the repository
(production code under crates/*/src, not tests) such that each change:
  1. still compiles (whole workspace) and the existing test suite still passes unchanged:
       cd {wt} && CARGO_TARGET_DIR={wt}/target cargo nextest run --workspace --no-fail-fast --offline
     (fallback: cargo test --workspace --no-fail-fast --offline). Run it and confirm; a handful of tests are slow, be patient.
  2. BREAKS the property above — i.e. after the change there is a concrete input / schedule / sequence of operations for
     which the statement is false in observable behaviour;
  3. needs something SPECIFIC to manifest: a particular interleaving or timing, a crash or fault at a particular point, a
     multi-step sequence of operations, an unusual input or boundary value, or two cooperating sites that each look fine
     alone. Do NOT make a change that ordinary use would expose at once (e.g. every call fails, every event is dropped). It
     should look like a plausible refactoring slip, an off-by-one, a dropped corner case, a reordered pair of statements, a
     wrong comparison, a missing wake-up on a rare path, etc. Do not add comments that announce the bug.
  4. comes with a DEMONSTRATION: a small Rust test, example program or shell script that FAILS (or shows the wrong
     behaviour) with the change applied and PASSES on the unchanged code. It may live in a new file (e.g. a new integration
     test under crates/<crate>/tests/ or a small script); it must not modify existing tests. Run it both ways
     (flip with `git diff > x.diff; git apply -R x.diff` / `git apply x.diff`; do NOT use `git stash` — the stash is
     shared with other worktrees of the same repository that other people are using at the same time) and record the output.
Code guarded by `#[cfg(watchexec_verif)]` are verification hooks: leave them alone and do not rely on them.

DELIVERABLES — write them into {wt}/_out/ (create it):
  - change1.diff (and change2.diff if you made a second one): output of `git diff` for the production-code change ONLY
    (not the demonstration), applicable with `git apply` on a clean checkout of the same commit;
  - demo1/ (and demo2/): the demonstration files, plus RUN.md saying exactly where each file goes and which command to run,
    and the observed output with and without the change;
  - notes.md: for each change, which clause of the property it breaks, what exactly is needed for it to manifest, and why the
    existing tests do not notice.
Before finishing, restore the worktree's tracked files to the unchanged state (git checkout -- . ; leave _out/ in place) and
delete the build output (rm -rf {wt}/target) to save disk. Your final message should summarise the changes in 5-10 lines.""")
