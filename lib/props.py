"""Per-property configuration of the check driver (engine, tiers, evidence wording)."""

NC = 16

PROPS = {}
NOT_APPLICABLE = {}
ENGINES = [
    {"name": "pure", "path": "harness/pure", "serves_properties": ["C03", "C11", "C12", "C14", "C16", "C17", "C19", "C20"],
     "kind_free_text": "E5 input-space engine: generated / enumerated inputs through the real library code, judged by independent reference oracles"},
]


def prop(pid, **kw):
    if not kw.get("script"):
        kw.setdefault("package", kw["engine"])
    PROPS[pid] = kw


prop(
    "C19",
    title="Signal names and exit statuses convert consistently",
    engine="pure",
    level="exploration",
    level_text=("complete enumeration of a finite input space through the real conversion code with an independent table as "
                "oracle; the space in the statement (all platform signals x spellings x cases, all exit codes / terminating "
                "signals) is small enough to be covered entirely on every run"),
    level_note="trusts nix's signal table for names and Rust's ExitStatus accessors for decoding raw wait statuses",
    technique="exhaustive differential run of the real parsers/converters against an independent table (reference-model monitor)",
    rule=("complete enumeration: signals 1..=64 and the 7 first-class signals (display -> parse), every nix signal name "
          "in short / SIG-prefixed / numeric spelling x upper / lower / mixed case, the documented Windows control names, "
          "31x31 --map-signal pairs through the real clap parser, exit codes 0..=255, terminating signals 1..=64 x core bit; "
          "a case is non-trivial when it is a distinct input string / number (all are)"),
    assumptions=["x86-64 Linux signal numbering; nix 0.29 knows signals 1..=31 only, numbers it cannot represent are outside "
                 "the statement ('every signal number valid on the platform' is read as: representable as an OS signal)"],
    tiers={"quick": {"shards": 1, "budget": 20}, "thorough": {"shards": 1, "budget": 20}},
)

prop(
    "C20",
    title="Project origins are exactly the marked ancestors",
    engine="pure",
    level="exploration",
    level_text=("exhaustive over the project-type enumeration and the single-marker table, seeded exploration over marker "
                "chains on a real filesystem (with decoys: unrelated files and names that differ from a marker by letter case only); the oracle is an independent marker table applied to the same directories; start "
                "paths are directories, files, or paths with 1-3 missing trailing components; a final phase puts markers into "
                "the filesystem root itself (the last shard confines itself with chroot to a scratch tree, whose top then is /)"),
    level_note=("trusts the filesystem and the transcribed marker tables; the enumeration is complete by hook H4's exhaustive match; "
                "the filesystem-root phase needs CAP_SYS_CHROOT and says so in the evidence notes when it cannot run; unlistable "
                "ancestors are not exercised (the checks run as root, which bypasses directory permissions)"),
    technique="reference-model monitor over real directory trees (exhaustive table + seeded random chains)",
    rule=("exhaustive part: every ProjectType (hook H4) classified vcs XOR soft and equal to its documented class; every "
          "recognised marker name alone in a directory as a file and as a directory. Generated part: chains root/d0/../dk "
          "(k<=5) with 0-4 random markers per level (1 in 4 of the wrong node type), origins() started from a random depth, "
          "types() on every chain member, both compared with an independent marker table evaluated on the real directories "
          "(including the ancestors above the sandbox). Non-trivial = chain with >=1 marker placed; distinct by (start, "
          "depth, placed markers)"),
    assumptions=["the origin-marker table is transcribed from the pinned implementation (the documentation does not list it); "
                 "the type-marker table and the vcs/soft classes are transcribed from the ProjectType documentation"],
    tiers={"quick": {"shards": 4, "budget": 30}, "thorough": {"shards": NC, "budget": 120}},
)

prop(
    "C16",
    title="Events survive a JSON round trip and the format is stable",
    engine="pure",
    level="exploration",
    level_text=("exhaustive over every filesystem event kind, first-class signal, source, file type and the boundary exit codes; "
                "seeded generation of whole events (0-8 tags in any order, hostile UTF-8 paths and metadata, full-range numbers); "
                "bounded-exhaustive enumeration of JSON tag objects per known kind (every subset of its own fields x irrelevant "
                "extra fields x contradictory completion fields). Oracles: equality after the round trip, an independent "
                "encoder of the documented wire format, and a totality oracle for the decoder (never fails, never another kind, "
                "Unknown exactly when an indispensable field is missing)"),
    level_note=("trusts serde_json; wrong JSON *types* for a field (a string pid) are outside the statement and not generated; the "
                "documented format table follows the suite's snapshots where they and the CLI help text differ"),
    technique="round-trip + differential monitor against an independent encoder/decoder table; Miri overlay on the same slice (thorough)",
    rule=("exhaustive part + N seeded random events per shard; a generated event is non-trivial if it has >=1 tag and distinct "
          "by its tag-kind sequence and metadata size; decoder objects are distinct by their JSON text"),
    tiers={"quick": {"shards": 4, "budget": 30}, "thorough": {"shards": NC, "budget": 120}},
)

prop(
    "C17",
    title="Path summaries handed to commands are faithful",
    engine="pure",
    level="exploration",
    level_text=("seeded generation of event batches (0-12 events, 0-4 paths and 0-3 kinds each, shared / disjoint prefixes, a path "
                "equal to the common directory, duplicates across events, events without paths or kinds) through the real "
                "summary functions (hook H3 exposes the CLI wrappers); an independent re-computation decides: join-back of every "
                "(kind, path), no unjustified entry, unique + byte-sorted entries, longest common directory, and the exact "
                "line format. Every event kind alone is covered exhaustively for the category table"),
    level_note="paths are absolute UTF-8 without ':' (the separator), as produced by the filesystem source",
    technique="reference-model monitor: independent re-computation of the environment summary and line format for each generated batch",
    rule=("N seeded random batches per shard + every kind x {file, dir, unknown} alone; non-trivial = batch with >=2 paths, "
          "distinct by the (path, file type, category) sequence"),
    tiers={"quick": {"shards": 4, "budget": 30}, "thorough": {"shards": NC, "budget": 120}},
)

prop(
    "C03",
    title="Ignore files apply only inside their directory; the nearest match wins",
    engine="pure",
    level="exploration",
    level_text=("seeded generation of directory trees over a name universe with textual-prefix siblings (test/tests, a/ab/abc, "
                "src/src2), 1-6 ignore files (in-tree and global) over the pattern grammar with negations, probes = every "
                "file and directory + non-existent paths + paths outside the origin, through the real IgnoreFilter (bulk, "
                "incremental, from empty()) and IgnoreFilterer::check_event / check_dir. A verdict is judged against two "
                "independent oracles (a reference evaluator written from the statement and real `git check-ignore`) only "
                "where both agree; oracle-free metamorphic laws decide scoping (with/without each file), list permutation, "
                "bulk vs incremental and repeated construction; two-path events (a directory-typed path and an untyped one) must be "
                "judged path by path"),
    level_note=("git 2.39 and the small reference glob matcher are trusted where they agree; probes on which they disagree (git's "
                "no-re-include-below-an-excluded-directory rule) are counted as oracle-ambiguous, not judged; the directory-vs-"
                "its-own-ignore-file case is skipped as the statement says"),
    technique="differential monitor with two independent oracles (reference evaluator + git check-ignore) plus metamorphic relations over real filesystem trees",
    rule=("N seeded scenarios per shard, each with ~40-80 probes; evaluations = probes judged or compared; a scenario is "
          "non-trivial if at least one judged probe is decided by a pattern (ignored or re-included) and distinct by its "
          "judged verdict vector"),
    tiers={"quick": {"shards": NC, "budget": 120, "min_evaluations": 20000}, "thorough": {"shards": NC, "budget": 400}},
)

ENGINES.append({"name": "simjob", "path": "harness/simjob", "serves_properties": ["C04", "C06", "C07", "C09", "C10"],
                "kind_free_text": "E1 virtual-time supervisor engine: the real start_job task on a paused current-thread tokio runtime with a "
                                  "simulated child installed through the public spawn hook; invariant monitors + trace inclusion in an "
                                  "executable reference model of the documented Job API"})

_SIM_NOTE = ("the child process is simulated (process-wrap wrapper installed through the public spawn hook; one real /bin/true is spawned "
             "and discarded per spawn because process-wrap spawns itself); virtual time is exact up to tokio's 1 ms timer wheel; "
             "select! tie-breaking is seeded (tokio_unstable rng_seed) so a scenario replays; no claim for interleavings of a "
             "multi-threaded runtime in this engine")

prop(
    "C04",
    title="A job never has two live processes at once",
    engine="simjob",
    level="fault_enumeration",
    level_text=("bounded-exhaustive control sequences (length <= 3 quick / 4 thorough over the public alphabet: the 14 Job methods plus the "
                "directly sendable ContinueTryGracefulRestart control and a graceful restart with the forceful signal) x child "
                "behaviour classes x send patterns (burst, gaps g/2, g, 2g+1) x every single injected spawn / kill / signal / wait "
                "failure position (kill and signal failures as a generic error and as ESRCH), then seeded random sequences of length 5-16 (graceful controls with any signal); an online monitor inside the simulated-child layer "
                "asserts at every spawn, under the same lock as the state it shadows, that no earlier child is spawned-and-unreaped "
                "(a child dropped without being reaped counts); an offline recount over the event log cross-checks it"),
    level_note=_SIM_NOTE,
    technique="invariant monitor at the spawn hook over bounded-exhaustive + random control histories with injected faults (virtual time)",
    rule=("scenario = (control sequence, send pattern, child behaviours, fault plan, ending); evaluations = scenarios executed; "
          "non-trivial = the trace contains >=1 spawn and >=1 of {kill, signal, spawn failure}; distinct by the abstract trace "
          "(event kinds in order, times and ids erased)"),
    tiers={"quick": {"shards": NC, "budget": 70, "quota": 8000, "min_evaluations": 20000}, "thorough": {"shards": NC, "budget": 420}},
)

_MODEL = ("trace inclusion: the observed job-side event sequence (hook calls, spawns, signals, kills, reaps, error-handler calls, marker "
          "closures with the job state they saw, task end) with its virtual instants, and the instant at which every ticket resolved, "
          "must equal one trace of an executable reference model written from the Job documentation; the model branches only where "
          "the documentation leaves the order open (child exit vs a ready control at the same instant, driver vs job at the same "
          "instant, expired timer vs an urgent/high control arriving at that instant, draining after the last handle is dropped)")

prop(
    "C06",
    title="Graceful stop: signal first, no kill before the grace period, kill at expiry",
    engine="simjob",
    level="exploration",
    level_text=("bounded-exhaustive graceful scenarios: {stop, restart, try-restart}_with_signal x grace {0, 1, 40 ms, 10 s} x signal "
                "{TERM, INT, HUP, KILL, custom 17, invalid 0} x child reaction {never, 0, g/2, g-1, g, g+1, 2g+3 after the signal; "
                "own exit before / after the deadline} x job state {running, never started, finished} x controls queued behind at "
                "every priority (same burst or g/2 later, including a second graceful stop and a start), then random histories. " + _MODEL +
                ". Reported for this property: divergences in signals, kills, reaps, spawn counts and marker order"),
    level_note=_SIM_NOTE,
    technique="online reference-model monitor (trace inclusion) in exact virtual time",
    rule=("evaluations = scenarios; non-trivial = trace with >=1 spawn and >=1 of {kill, signal, spawn failure}; distinct by abstract trace"),
    tiers={"quick": {"shards": NC, "budget": 70, "quota": 8000, "min_evaluations": 20000}, "thorough": {"shards": NC, "budget": 420}},
)

prop(
    "C07",
    title="Every control completes and every ticket resolves",
    engine="simjob",
    level="fault_enumeration",
    level_text=("the C04 enumeration (sequences x behaviours x send patterns x single spawn / kill / signal faults) crossed with waiter "
                "topologies {one task per ticket, 2-4 tasks on clones of every ticket, one sequential waiter (at most one task waiting "
                "per job), waiters created late} and job endings {delete, delete_now, last handle dropped, none} after every sequence. "
                "Each ticket clone is awaited by its own task that records the virtual instant of completion. Oracles: completion "
                "instant equals the reference model's (for a graceful stop: min(child exit, grace expiry)); when the job task ends "
                "every outstanding waiter completes at that instant; the task ends without panicking; never-resolving is exact in "
                "virtual time (awaited 10^4 x the longest timer)"),
    level_note=_SIM_NOTE,
    technique="offline checker over recorded ticket-completion events against a reference model, with fault injection at the child interface",
    rule=("evaluations = scenarios; non-trivial = trace with >=1 spawn and >=1 of {kill, signal, spawn failure}; distinct by abstract trace"),
    tiers={"quick": {"shards": NC, "budget": 70, "quota": 8000, "min_evaluations": 20000}, "thorough": {"shards": NC, "budget": 420}},
)

prop(
    "C09",
    title="Job lifecycle follows the documented state machine",
    engine="simjob",
    level="exploration",
    level_text=("bounded-exhaustive control sequences (length <= 3 quick / 4 thorough) x child behaviour classes x send patterns x "
                "spawn-failure positions, then random longer histories. " + _MODEL + ". Named clauses fall out of the model: start is a "
                "no-op while running, stop while not; restart leaves a fresh process; try-restart never starts an idle job; to_wait "
                "resolves at once when nothing runs; the spawn hook runs once before each spawn and its environment change is seen "
                "by that spawn; run/run_async closures see (current, previous) state as documented; one random scenario in ten "
                "starts with set_error_handler, unset_spawn_hook, set_spawn_hook and gets a spawn failure (unsetting the hook "
                "touches nothing else; a process started after unset_spawn_hook without a new hook is checked in C18's engine)"),
    level_note=_SIM_NOTE,
    technique="online reference-model monitor (trace inclusion against an executable model of the documented API) in virtual time",
    rule=("evaluations = scenarios; non-trivial = trace with >=1 spawn and >=1 of {kill, signal, spawn failure}; distinct by abstract trace"),
    tiers={"quick": {"shards": NC, "budget": 70, "quota": 8000, "min_evaluations": 20000}, "thorough": {"shards": NC, "budget": 420}},
)

prop(
    "C10",
    title="Controls run in send order within a priority; urgent before high before normal",
    engine="simjob",
    level="exploration",
    level_text=("every mix of up to 4 (quick) / 5 (thorough) controls over {normal / high / urgent markers (hook H2), to_wait, start, stop} "
                "delivered (a) as a burst to an idle job task, (b) enqueued behind a gate (run_async blocked on a harness latch) and "
                "released, (c) while a grace timer is armed, (d) followed by delete_now behind a gate; then random histories. Markers "
                "carry unique ids. Oracles: per priority FIFO and exactly-once (log invariants), ticket-implies-ran, and the full "
                "cross-priority order by trace inclusion in the reference model; one random scenario in 25 installs a suspending "
                "async spawn hook (starting then takes virtual time) and is judged by the invariant 'the effect of a control - the "
                "spawn attempt of a restart, the marker of a run - precedes the resolution of its ticket in the log'"),
    level_note=_SIM_NOTE,
    technique="offline ordering checker over uniquely identified marker events + reference-model trace inclusion (virtual time)",
    rule=("evaluations = scenarios; non-trivial = trace with >=1 spawn and >=1 of {kill, signal, spawn failure}; distinct by abstract trace"),
    tiers={"quick": {"shards": NC, "budget": 70, "quota": 8000, "min_evaluations": 20000}, "thorough": {"shards": NC, "budget": 420}},
)

prop(
    "C11",
    title="Path filter verdicts follow the documented glob, ignore and extension rules",
    engine="pure",
    level="exploration",
    level_text=("seeded generation of filterer configurations (0-3 filter patterns, 0-3 ignore patterns with occasional negations, "
                "0-2 extensions, 0-5 whitelisted files in arbitrary order, 0-1 ignore file at the origin) over the glob grammar, each probed with 40 "
                "events (0-3 paths, file / dir / symlink / unknown type, inside and outside the origin). The verdict of the real "
                "GlobsetFilterer::check_event is compared with the statement evaluated by an independent glob matcher; every "
                "(pattern, path) pair is cross-checked against the ignore-crate primitive and a disagreement makes the case "
                "oracle-ambiguous (inconclusive), so only the composition logic is judged. Oracle-free laws: empty configuration "
                "passes everything, an added non-negated ignore pattern never turns a rejection into a pass, a whitelisted file "
                "always passes"),
    level_note="negated *filter* patterns are not generated (not in the statement's grammar; the 1.x compatibility re-match interacts with them)",
    technique="differential monitor against an independent evaluation of the documented rules + metamorphic relations",
    rule="evaluations = (configuration, event) pairs; non-trivial = event with >=1 path under a configuration with >=1 rule, distinct by configuration class x verdict x file types",
    tiers={"quick": {"shards": NC, "budget": 30, "min_evaluations": 100000}, "thorough": {"shards": NC, "budget": 300}},
)

prop(
    "C14",
    title="Ignore-file discovery finds exactly the applicable files and prunes ignored dirs",
    engine="pure",
    level="exploration",
    level_text=("seeded generation of real directory trees (depth <= 4, fan-out <= 4, prefix-related names) with .gitignore / .ignore / "
                ".hgignore files (non-empty, empty, directories of that name, one in eight a symbolic link to a regular file) whose patterns ignore directories, files or nothing, "
                "with negations; VCS metadata directories with decoy ignore files at the origin and deeper; origin-level files "
                "(.git/info/exclude, core.excludesFile, .bzrignore, _darcs/prefs/boring, .fossil-settings/ignore-glob); explicit "
                "ignore files (also ones that discovery finds as well), core.excludesFile in the first of two [core] sections, and explicit watch lists (directories of the tree and / or paths outside the origin: a prefix-named "
                "sibling, an unrelated tree, the origin's parent, the origin itself). from_origin's result is compared as a set of (path, applies_in, applies_to) "
                "with an independent walker built on the C03 reference evaluator; the error list must be empty; the same logical "
                "tree is re-created twice in different creation orders on tmpfs (/dev/shm lists in creation order) and must give "
                "the same result"),
    level_note="the reference evaluator is the one validated against git in C03; trees are readable (no permission faults)",
    technique="reference-model monitor (independent walker) over generated real directory trees + listing-order metamorphic relation",
    rule="evaluations = trees; non-trivial = discovery returned >=2 files, distinct by the set of returned paths",
    tiers={"quick": {"shards": NC, "budget": 90, "min_evaluations": 1500}, "thorough": {"shards": NC, "budget": 300}},
)

prop(
    "C12",
    title="Explicit CLI filters are honoured under every mix of ignore-discovery flags",
    engine="pure",
    level="exploration",
    level_text=("complete enumeration of the 64 subsets of {--no-vcs-ignore, --no-project-ignore, --no-global-ignore, "
                "--no-default-ignore, --no-discover-ignore, --ignore-nothing} x {no explicit option, --ignore, --ignore-file, "
                "--filter, --filter-file, --exts, --fs-events, all together}: the real argument pipeline and the real "
                "WatchexecFilterer (hook H3) are built in an isolated fixture (fresh HOME / XDG_CONFIG_HOME, project with .git, "
                ".gitignore, .ignore, global git ignore, global watchexec ignore, default-ignored paths) and probed with one event "
                "per source; the explicit ignore file has a file-name line and lines naming directories (dir/, /rooted, name), probed "
                "with files below those directories. Oracle: a source-activation table written from the flags' help texts; explicit "
                "options never off. A second pass gives the same project through --project-origin while the process is started in a "
                "sub-directory without a VCS marker of its own, and judges the source-activation table again"),
    level_note="one fixture layout; git config is isolated through HOME / XDG_CONFIG_HOME / GIT_CONFIG_NOSYSTEM; the end-to-end binary is not involved here",
    technique="exhaustive differential run of the real CLI filter construction against a source-activation table (reference-model monitor)",
    rule="evaluations = (flag subset, explicit option set) pairs, all distinct; each judges 1-7 explicit probes and 6 single-source probes",
    tiers={"quick": {"shards": 1, "budget": 60}, "thorough": {"shards": 1, "budget": 60}},
)

ENGINES.append({"name": "wxlib", "path": "harness/wxlib", "serves_properties": ["C01", "C02", "C08", "C13", "C15"],
                "kind_free_text": "E3 in-process engine (real time): a real Watchexec instance (action worker, filter, error hook, event sources) "
                                  "driven by concurrent producers, recording filterer, handlers and (hook H1) a recording / wrapping watcher; "
                                  "offline checkers over the recorded history; heartbeat-guarded bounded-progress waits"})

_RT_NOTE = ("real time on a shared machine: only sound inequalities are verdicts (a handler entered >= throttle after the producer's pre-send "
            "timestamp holds on any machine); anything resting on an upper bound is re-run 5 times and reported only when it repeats in "
            ">= 4 healthy runs (heartbeat gap < 500 ms), otherwise counted inconclusive; every event carries a unique id in its metadata")

prop(
    "C01",
    title="Accepted events reach the action handler exactly once; rejected ones never",
    engine="wxlib",
    level="exploration",
    level_text=("seeded random streams through a real Watchexec instance: 1-8 concurrent producers on a 2-8-thread runtime, 5-120 events "
                "each over all tag kinds (path, signal, keyboard, process, completion, source, empty) and priorities, per-event filter "
                "verdict pass / reject / error, queue size {1, 2, 8, 4096} (back pressure), throttle {0, 1, 5, 20, 50 ms}, sync and async "
                "handlers of 0-10 ms, arrival gaps from 0 to 2x throttle; plus real filesystem operations (create / write / rename / "
                "remove / mkdir -p / rm -r) under the native and the poll watcher, each notify event stamped with a unique id by a "
                "wrapping watcher (hook H1); OS signals sent to the process and keyboard EOF (stdin already at EOF, or a pipe that "
                "is closed after the source was enabled and 1-4 other settings changed: exactly one event, also after later "
                "changes); events that are equal to one another (three empty, three identical tagged ones) sent back to back. "
                "Offline set oracle: delivered multiset == {sent ok and (urgent or empty or pass)} with all "
                "multiplicities 1, nothing rejected / erroring / unsent delivered, no empty batch"),
    level_note=_RT_NOTE + "; loss inside inotify / notify before the hook is out of reach",
    technique="offline conservation checker (exactly-once / no-loss between producer and consumer event logs) over stress workloads",
    rule=("evaluations = scenarios (one Watchexec instance each); non-trivial = history with >=2 batches or a batch of >=2 events, distinct "
          "by the abstract history (batch sizes and priority composition, times and ids erased)"),
    tiers={"quick": {"shards": NC, "budget": 40, "min_evaluations": 300}, "thorough": {"shards": NC, "budget": 420}},
)

prop(
    "C02",
    title="Debounce: one action per window, never before the window has elapsed",
    engine="wxlib",
    level="exploration",
    level_text=("scenario classes over throttle {0, 1, 5, 20, 50, 200 ms, 2 s}: single event; burst inside the window with stragglers "
                "around its end; run-time throttle changes between cycles; urgent event into a half-filled 2 s window; continuous "
                "accepted streams with handlers up to 3x the window; accepted event followed by an unending stream of rejected or "
                "erroring events (no starvation); random mixes. Oracles: (sound) a non-urgent batch is entered no earlier than throttle "
                "after the earliest pre-send timestamp of its members and no earlier than throttle after the previous handler "
                "returned; urgent events never reach the filterer; (confirmed by repetition) urgent delivered within 1 s, an event "
                "sent in the first half of a window is not in a later batch, the batch is delivered while the rejected stream runs"),
    level_note=_RT_NOTE + "; a window that is too long by less than the margins is not visible in real time",
    technique="offline timing checker over producer / filter / handler timestamps from one monotonic clock (sound lower bounds; confirmed upper bounds)",
    rule="evaluations = scenarios; non-trivial = history with >=2 batches or a batch of >=2 events, distinct by abstract history",
    tiers={"quick": {"shards": NC, "budget": 40, "min_evaluations": 200}, "thorough": {"shards": NC, "budget": 420}},
)

prop(
    "C15",
    title="Runtime errors reach the error handler once and stop nothing unless elevated",
    engine="wxlib",
    level="fault_enumeration",
    level_text=("injected faults: filter errors on chosen events (unique text per event) in bursts larger than the error queue (1, 2, 64), "
                "watch / unwatch failures on chosen paths through a fake watcher (hook H1); error-handler behaviours {ignore, elevate the "
                "n-th, raise critical at the n-th (with or without keeping the earlier errors' hooks alive), replace itself from inside, slow}. Oracle over the on_error log, the batches and "
                "main()'s result: every fault id exactly once, the faulty event in no batch, all other accepted events delivered "
                "(C01's oracle), main alive until the quit unless elevated / critical, then main ends with exactly that error and no "
                "later batch; replacement takes effect for the next error only; a filter error counts as raised only if the recording "
                "filter was called on the event well before the quit; on settled histories one configuration change makes at most "
                "one registration attempt per path (a failed registration is reported once, not once per duplicate attempt)"),
    level_note=_RT_NOTE + "; watcher-callback faults (queue overflow, unreadable events reported from the watcher's own thread and from inside watch() on the worker's task) are covered at most once by construction of the oracle (at-most-once clause); injected watch / unwatch failures come with and without the path in the notify error",
    technique="fault injection at the filterer / watcher interface with an exactly-once checker over the error-handler log",
    rule="evaluations = scenarios; non-trivial = history with >=2 batches or a batch of >=2 events (synthetic) or >=2 watcher calls, distinct by abstract history",
    tiers={"quick": {"shards": NC, "budget": 40, "min_evaluations": 300}, "thorough": {"shards": NC, "budget": 420}},
)

prop(
    "C13",
    title="Watcher registration converges to the configured path set",
    engine="wxlib",
    level="fault_enumeration",
    level_text=("seeded sequences (1-5 steps) of {pathset(S) for S over {a, b, a/c} with recursion modes, file_watcher(Native | Poll(d)), "
                "throttle, keyboard_events, on_error replacement} issued while the fs worker is idle, back to back, from another OS "
                "thread, from inside the action handler (which also replaces itself), from inside the error handler, and from inside "
                "the n-th watch / unwatch call of the worker (a recording fake watcher installed through hook H1 calls back into the "
                "driver at exactly that point of the worker's read-apply-wait cycle), with watch / unwatch failures injected per path "
                "and attempt. Oracle at quiescence (recorder log stable, polled up to 2 s, heartbeat-guarded): exactly one live watcher "
                "of the configured kind whose registered map (path -> recursion mode) equals the configured set minus paths whose last "
                "watch attempt was made to fail; none when the set is empty; handler versions never go back; the reconfiguring "
                "handler returns (10 s bounded progress); on settled histories (every change issued after the previous one was "
                "applied; one scenario in four) a path is passed to watch() at most once per watcher instance and change unless it "
                "was unwatched in between ('once per attempt')"),
    level_note=_RT_NOTE + "; the real notify watchers are not involved here (the fake records what the worker asks for)",
    technique="invariant check on hooked watcher state at quiescent points, with injected failures and injected re-entrancy at the watcher calls",
    rule="evaluations = scenarios; non-trivial = >=2 watch/unwatch calls, distinct by the sequence of watcher events (create / watch / unwatch / failures / drop)",
    tiers={"quick": {"shards": NC, "budget": 35, "min_evaluations": 800}, "thorough": {"shards": NC, "budget": 420}},
)

prop(
    "C08",
    title="Quit always terminates and leaves no supervised process behind",
    engine="wxlib",
    needs_vchild=True,
    level="exploration",
    level_text=("seeded scenarios on a real Watchexec instance whose action handler creates 0-4 jobs running real helper processes "
                "(vchild: exits 0/5/20 ms after the signal or ignores it, forks grandchildren with their own reaction; plain, "
                "process-group and session spawn options), drives each into a state {running, never started, finished, mid graceful "
                "restart with an armed 150 ms timer, already deleted, 40 queued controls, a graceful stop pending when delete_now() is "
                "called, a handle clone held by the driver (the harness drops its own handles when it requests the quit)}, then "
                "requests quit() or quit_gracefully(sig, grace in {0, 100, 300 ms}) — also from the very action that created the jobs. "
                "Readiness = each process's `start` line (written after its signal mask is set). Oracles: main() returns Ok within "
                "1 s (abort) or armed grace + quit grace + 1 s (graceful), heartbeat-guarded; afterwards every pid that appeared in "
                "the helper log is polled in /proc for up to 2 s: no direct child alive, and after a graceful quit of a grouped / "
                "session command no member of its group alive. The CLI part (SIGINT/SIGTERM to the production binary) is in C05's engine"),
    level_note=_RT_NOTE + "; termination bounds are coarse (margin 1 s)",
    technique="runtime monitor over real child processes: bounded-progress termination check + /proc survivor scan after every quit",
    rule="evaluations = scenarios; non-trivial = >=1 job, distinct by (quit manner, per job wrap/state/reactions)",
    tiers={"quick": {"shards": NC, "budget": 40, "min_evaluations": 600}, "thorough": {"shards": NC, "budget": 420}},
)

ENGINES.append({"name": "wxcli", "path": "lib/wxcli.py", "serves_properties": ["C05", "C08", "C18"],
                "kind_free_text": "E4 end-to-end engine (python): the production watchexec binary built with the hooks OFF runs the vchild helper as "
                                  "its command in a temp project; the driver makes file changes / sends signals with monotonic timestamps and an "
                                  "offline checker reads the merged driver + helper log; readiness through /proc fdinfo (inotify) and the helper's start line"})

prop(
    "C05",
    title="On-busy policy: do-nothing, queue, restart and signal behave as documented",
    engine="wxcli",
    script="wxcli.py",
    needs_cli=True,
    needs_vchild=True,
    level="exploration",
    level_text=("the production binary (hooks off) in the four --on-busy-update modes and the -r / --signal shorthands, with and without "
                "--postpone, --stop-signal, --stop-timeout {0, 300 ms, 500 ms, unit-less 1 = 1 s}, --delay-run, debounce {20, 40 ms}, running a helper command "
                "that exits quickly, runs 1.3 s, ignores the stop signal, or exits 60 ms after it. Scenario templates place change "
                "bursts while idle, deep inside a run, at the moment of exit, during the grace period, back to back, as a three-step "
                "history (change in run N, change in the queued / restarted run N+1) and inside the --delay-run of a previous change. "
                "Offline rules over the merged driver + helper log: runs never overlap (each helper probes its predecessor at start); "
                "first run at start-up unless postponed; idle change => exactly one run; do-nothing: no signal, no further run from a "
                "change deep inside a run; signal: the configured signal reaches the same pid and nothing starts while it runs; "
                "restart: stop signal first, fresh run after, a signal-ignoring command is replaced no earlier than --stop-timeout "
                "after the change; queue: no signal, exactly one further run; restart and queue: the last change is followed by a run "
                "that started after it (bounded progress 10 s); no run disappears without an exit line or a signal; runs <= changes + 1"),
    level_note=("real time: changes are classified definite-mid-run only with a 300 ms margin to both run ends, bursts near a boundary "
                "only get the timing-free rules; lower bounds use the driver's pre-change timestamp; microsecond-wide races inside the "
                "queue bookkeeping are reached only by luck at this level (the evidence counts bursts within 5 ms of a run end)"),
    technique="offline checker over the recorded history of an end-to-end run of the production binary (ordering / exactly-once / non-overlap rules)",
    rule="evaluations = scenarios (one watchexec process each); non-trivial = not the idle template, distinct by (mode, template, child kind, options)",
    tiers={"quick": {"shards": 10, "budget": 50, "min_evaluations": 150}, "thorough": {"shards": NC, "budget": 420}},
)

prop(
    "C18",
    title="Commands are spawned with exactly the configured program and arguments",
    engine="wxlib",
    needs_vchild=True,
    needs_cli=True,
    extra={"script": "wxcli.py", "shards": 4, "quick_budget": 25},
    level="exploration",
    level_text=("library part: generated Commands — Exec{helper, args} with arguments from a hostile pool (empty string, spaces, quotes, "
                "$VAR, globs, ;, newlines, tabs, multi-byte, 4 KiB) and Shell{prog = the helper itself, options, program_option in "
                "{-c, /C, none}, command, extra args} — spawned through start_job plain / grouped / session; the helper dumps its "
                "argv bytes, cwd, pgid, sid and environment (session spawns half of the time with `grouped` set as well). Oracle: argv byte for byte and in the documented order; grouped => "
                "pgid == pid != ours; session => sid == pid; plain => our pgid and sid; env / cwd set by the spawn hook visible, and "
                "absent when the hook did not set them (including a process started after unset_spawn_hook). CLI part: `watchexec -1` with -n, --shell=none and --shell='<helper> opts' "
                "(the helper is the shell and must receive <opts> -c '<words joined by single spaces>') x --wrap-process"),
    level_note="the helper takes its own settings from the environment so that the entire argument vector is under test",
    technique="differential monitor at the process boundary: the child reports what it received, compared byte for byte with the configuration",
    rule="evaluations = spawns; non-trivial = >=1 argument, distinct by (mode, wrap, argument bytes)",
    tiers={"quick": {"shards": 8, "budget": 60, "quota": 400, "min_evaluations": 2000}, "thorough": {"shards": NC, "budget": 240}},
)

PROPS["C08"]["extra"] = {"script": "wxcli.py", "shards": 4}
PROPS["C08"]["needs_cli"] = True

# Miri overlay (thorough tier): the same oracles run inside the interpreter, which adds undefined-behaviour detection
PROPS["C16"]["miri"] = {"package": "mirislice", "shards": NC, "tiers": ["thorough"]}
PROPS["C19"]["miri"] = {"package": "mirislice", "shards": 1, "tiers": ["thorough"]}
PROPS["C16"]["tiers"]["thorough"]["watchdog"] = 1500
PROPS["C16"]["level_note"] += "; thorough tier: the decoder enumeration and a small generated slice also run under Miri (cargo +nightly miri run -p mirislice), any Undefined Behaviour report is a violation"
PROPS["C19"]["level_note"] += "; thorough tier: signal / exit-status conversions also run under Miri"

# memcheck overlay (thorough tier): the production binary inside valgrind; the spawn / signal / kill / reap paths cross into C
# (fork, pre_exec, setsid, killpg, waitid) where Miri cannot follow. Only timing-free rules are judged there.
for _p in ("C08", "C18"):
    PROPS[_p]["memcheck"] = {"script": "wxcli.py", "shards": 4, "tiers": ["thorough"], "args": {"valgrind": 1}}
    PROPS[_p]["level_note"] += ("; thorough tier: the same binary also runs complete start / change / quit life cycles inside valgrind memcheck "
                                "(parent and the forked child up to exec), any error block is a violation keyed by its first watchexec frame")

# ThreadSanitizer overlay (thorough tier): the multi-threaded sender workload of the supervisor engine, built with
# -Zsanitizer=thread -Zbuild-std; a race report whose racing access is in watchexec code and that repeats is a violation
for _p in ("C04", "C07", "C10"):
    PROPS[_p]["tsan"] = {"package": "simjob", "shards": 4, "tiers": ["thorough"], "args": {"mt-only": 1}}
    PROPS[_p]["level_text"] += ("; plus a multi-threaded real-clock family (2-4 concurrent sender tasks on a 2-4-thread runtime, random yields / "
                               "sleeps, injected faults) judged by the invariant oracles only (never two live processes; per sender and priority "
                               "FIFO, exactly once; every ticket resolved when the job ends); thorough tier also runs that family under ThreadSanitizer")

# ThreadSanitizer overlay for the in-process engine (thorough tier): the same producer / reconfiguration / error-routing
# workloads in a -Zsanitizer=thread build; only the race detector's reports are verdicts there (the build is 5-15x slower,
# so the engine's own real-time oracles are not judged in those shards)
for _p in ("C01", "C13", "C15"):
    PROPS[_p]["tsan"] = {"package": "wxlib", "shards": 4, "tiers": ["thorough"], "reports_only": True}
    PROPS[_p]["level_note"] += ("; thorough tier: the same workloads also run in a ThreadSanitizer build (4 extra shards), where a repeated "
                                "race report with a racing access inside a watchexec crate is a violation and nothing else is judged")

# Interpreter overlay for the supervisor's lock-free parts (thorough tier): the no-process slice of the multi-threaded
# family (harness/mirijob) inside Miri with a per-shard scheduler seed and a raised pre-emption rate. Miri reports data
# races and undefined behaviour itself and pre-empts threads between any two basic blocks, which produces interleavings
# of the ticket flags / waker slots / control queues that native runs practically never show; the C07 / C10 oracles judge
# them. Weak-memory emulation is off: with it tokio's own oneshot / task wake-up (harness side) got stuck, see DESIGN 9.7.
for _p in ("C07", "C10"):
    PROPS[_p]["miri"] = {"package": "mirijob", "shards": NC, "tiers": ["thorough"], "seeded": True,
                         "flags": "-Zmiri-disable-isolation -Zmiri-ignore-leaks -Zmiri-preemption-rate=0.05 -Zmiri-disable-weak-memory-emulation"}
    PROPS[_p]["level_note"] += ("; thorough tier: a no-process slice of the multi-threaded family (concurrent senders at all three priorities, "
                                "gates, tickets awaited through clones / after an early poll / inline / not at all, failing spawns, delete / "
                                "delete_now / last handle dropped) also runs inside Miri with a different scheduler seed per shard and a raised "
                                "pre-emption rate (data-race and undefined-behaviour detection; weak-memory emulation off, see DESIGN 9.7), "
                                "judged by the same ticket and ordering oracles")

# end-to-end slices through the production binary (hooks off)
for _p, _txt in (("C12", "; an end-to-end slice runs random flag subsets through the production binary with --only-emit-events "
                         "--emit-events-to=json-stdio, touches one probe file per source plus sentinels and compares the reported set "
                         "with the same table"),
                 ("C17", "; an end-to-end slice lets the production binary start the helper command after real file changes with "
                         "--emit-events-to=environment and checks that every changed file is recoverable from the environment the "
                         "command actually received (COMMON joined with an entry), entries unique and byte-sorted")):
    PROPS[_p]["extra"] = {"script": "wxcli.py", "shards": 2}
    PROPS[_p]["needs_cli"] = True
    PROPS[_p]["needs_vchild"] = True
    PROPS[_p]["level_text"] += _txt
PROPS["C12"]["tiers"]["quick"]["budget"] = 25
PROPS["C12"]["tiers"]["thorough"]["budget"] = 120


# round 11: workloads added after measuring which lines of each property's anchor files the quick tier reaches
# (lib/coverage.py) and after the eleventh round of seeded changes; appended to what the level says is explored
_ROUND11 = {
    "C01": "; the filterer and the action handler replaced while events flow (at quiescence and inside a window): an event sent after a replacement returned is never judged by an older filterer, exactly-once holds across handler generations; volleys of six different OS signals sent back to back (one event per kind and volley)",
    "C02": "; windows that never end by themselves (throttle Duration::MAX, or a day): nothing is handed over before the urgent event, which brings everything collected with it",
    "C03": "; the same lines fed through add_globs (scoped and global) as further construction routes; additions after finish() leave every verdict as it was",
    "C07": "; sync and async error handlers; Control::NextEnding sent through the public Job::control (normal priority)",
    "C09": "; sync and async error handlers; Control::NextEnding sent through the public Job::control (normal priority)",
    "C08": "; CLI: one scenario in five keeps watchexec's standard input open and passes --stdin-quit; the shutdown is then requested by closing that input (a third trigger besides SIGINT / SIGTERM) or by a signal while the input stays open",
    "C10": "; Control::NextEnding sent through the public Job::control travels at normal priority and is part of the bounded-exhaustive alphabet",
    "C11": "; patterns given more than once, in particular P, !P, P (the later copy counts again), and the monotonicity law with a pattern that is already present",
    "C12": "; a negated explicit --ignore pattern that re-includes a file matched by a built-in default pattern (passes under all 64 combinations)",
    "C13": "; the watcher kind and the path set changing in one step with a path dropped, which then comes back",
    "C15": "; injected watcher failures that name several paths (one runtime error per path) or only a path other than the watched one (still exactly one error)",
    "C17": "; end to end also through --emit-events-to=file / stdio / json-file / json-stdio: what the command finds in WATCHEXEC_EVENTS_FILE or on its standard input lists every changed file as <kind>:<absolute path> (or as a JSON event per line)",
    "C18": "; CLI: the shell and its options separated by runs of blanks or tabs, blanks around the whole --shell value, and no --shell at all with $SHELL naming the shell",
    "C19": "; every raw 16-bit wait status (the conversion never panics; exited statuses keep their code and signalled ones their signal whatever the other bits are); numeric spellings outside the platform table (0, negative, 32..130, huge, +n, 0n) either fail to parse or give back the same number",
}
for _pid, _txt in _ROUND11.items():
    PROPS[_pid]["level_text"] = PROPS[_pid]["level_text"] + _txt
