#!/usr/bin/env python3
"""Seeded-change battery: apply /verif/seeded/<id>/patch.diff to /repo, run the check(s) for the property it
breaks, undo the patch, and record whether the check reported a violation.

usage: lib/seeded.py run <id>|all [quick|thorough]     lib/seeded.py table
"""
import json, os, subprocess, sys, time
VERIF = os.path.dirname(os.path.dirname(os.path.abspath(__file__)))
SEEDED = os.path.join(VERIF, "seeded")


def sh(cmd, **kw):
    return subprocess.run(cmd, shell=True, text=True, capture_output=True, **kw)


def run_one(sid, tier):
    d = os.path.join(SEEDED, sid)
    meta = json.load(open(os.path.join(d, "meta.json")))
    st = sh("git -C /repo status --porcelain --untracked-files=no").stdout.strip()
    if st:
        print("refusing: /repo has local modifications:\n" + st)
        sys.exit(2)
    r = sh("git -C /repo apply %s" % os.path.join(d, "patch.diff"))
    if r.returncode != 0:
        print(sid, "patch does not apply:", r.stderr.strip()[:300])
        return None
    results = {}
    try:
        for pid in meta.get("checks", [meta["property"]]):
            t0 = time.time()
            env = dict(os.environ)
            env["VERIF_EVIDENCE_DIR"] = os.path.join(VERIF, "target", "seeded-evidence")
            r = sh("cd %s && ./check %s %s" % (VERIF, pid, tier), env=env)
            lines = [l for l in r.stdout.splitlines() if l.startswith(("VIOLATION", "KNOWN-FINDING"))]
            sigs = [l.strip()[3:] for l in r.stderr.splitlines() if l.startswith("  -> ")]
            results[pid] = {"exit": r.returncode, "violation_lines": len([l for l in lines if l.startswith("VIOLATION")]),
                            "signatures": sigs[:8], "wall_s": round(time.time() - t0, 1), "tier": tier}
            print(sid, pid, tier, "exit=%d" % r.returncode, "sigs=%s" % [s.split(":")[0] for s in sigs[:4]])
    finally:
        sh("git -C /repo checkout -- .")
    out = os.path.join(d, "result.json")
    prev = json.load(open(out)) if os.path.exists(out) else {}
    prev[tier] = results
    json.dump(prev, open(out, "w"), indent=1)
    return results


def main():
    if len(sys.argv) >= 2 and sys.argv[1] == "table":
        for sid in sorted(os.listdir(SEEDED)):
            p = os.path.join(SEEDED, sid, "result.json")
            if not os.path.exists(p):
                print("%-28s (not run)" % sid)
                continue
            res = json.load(open(p))
            cells = []
            for tier in ("quick", "thorough"):
                for pid, r in res.get(tier, {}).items():
                    cells.append("%s/%s:%s" % (pid, tier, "DETECTED" if r["exit"] == 1 else ("missed" if r["exit"] == 0 else "harness-error")))
            print("%-28s %s" % (sid, "  ".join(cells)))
        return
    which, tier = sys.argv[2], (sys.argv[3] if len(sys.argv) > 3 else "quick")
    ids = sorted(os.listdir(SEEDED)) if which == "all" else [which]
    for sid in ids:
        if os.path.exists(os.path.join(SEEDED, sid, "meta.json")):
            run_one(sid, tier)


if __name__ == "__main__":
    main()
