#!/bin/bash
# usage: simreplay.sh PROP file.json  -> prints the trace (without sends/hooks) and the verdict lines
SIMJOB_TRACE=1 /verif/target/debug/simjob $1 --replay $2 2>&1 >/dev/null | grep -v "Send\|Hook {" | head -${3:-40}
/verif/target/debug/simjob $1 --replay $2 | python3 /verif/lib/vsum.py 300 | grep '^ \*'
