#!/usr/bin/env python3
"""Summarise an engine shard report read from stdin (for interactive use)."""
import json, sys, collections
d = json.load(sys.stdin)
print("evals", d['evaluations'], "nontrivial", len(d['nontrivial']), "inconclusive", d['inconclusive'])
c = collections.Counter(v['sig'] for v in d['violations'])
seen = set()
for v in d['violations']:
    if v['sig'] in seen:
        continue
    seen.add(v['sig'])
    print(" *", v['sig'], '|', v['what'][:int(sys.argv[1]) if len(sys.argv) > 1 else 260])
print({k: v for k, v in d['counters'].items() if not k.startswith(('violations_suppressed','out_of_scope'))})
sup={k.split('::',1)[1]: v for k, v in d['counters'].items() if k.startswith('violations_suppressed')}
if sup: print('suppressed classes:', len(sup), 'total', sum(sup.values()))
if d.get('notes'): print(d['notes'][:5])
